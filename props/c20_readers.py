"""
C20 - bundled readers render every message completely and survive foreign input.

Engine SEQ over inputs.  (A) every message of a pool (emitted by real programs:
starts, ends with extractor fields, messages, tracebacks, destination-failure
and serialization-failure reports; plus synthetic messages over a value and
timestamp alphabet) x {pretty_format, compact_format}: the rendered text is
re-parsed independently.  (B) every sequence of <= 3 input lines over a line
alphabet (Eliot message, non-JSON text, invalid UTF-8, empty line, JSON
scalars, JSON array, JSON objects lacking a required field) x both formatters
through the real eliot-prettyprint entry point.  (C) eliot.filter with identity,
SKIP and projection expressions over message streams.
"""

import io
import re
import ast
import sys
import json
import itertools
from datetime import datetime, timedelta

from vkit import progs, world, flt
from vkit.runner import Result
from vkit.world import eliot

import eliot.prettyprint as pp
import eliot.filter as ef

ID = "C20"
LEVEL = "exploration"
SHARDS = 2
RULE = (
    "(A) messages = all messages emitted by 6 real programs (incl. failure reports) + synthetic "
    "messages over 23 field values (incl. a lone surrogate) x 6 timestamps x 3 levels, x 2 formatters; (B) all sequences of <= L "
    "lines over an 18-line alphabet (incl. a line with a UTF-8 signature, integers beyond 64 bits, NaN/Infinity tokens) x 2 formatters through _main(); (A2) all ordered pairs (thorough: triples) of messages over 14 values that are equal without being the same JSON value (1, 1.0, True, 0.0, -0.0, False, ...), formatted one after the other in one process; (C) filter expressions {J, SKIP-if-"
    "type, J['task_uuid'], datetime projection, J.get('value') (null results)} over the message pool in blocks, written to {StringIO, UTF-8 text stream, ASCII text stream}, plus an on-demand input that inspects the output before every line and a damaged line at position 0/2/5; non-trivial = every "
    "case except the single-field default message"
)
ASSUMPTIONS = [
    "pretty_format value exactness is demanded only for values whose repr contains no backslash (the \\\\n -> newline layout is presentation)",
    "values by representatives; local-timezone rendering is not checked (needs TZ control)",
]

HEADER = ("task_uuid", "task_level", "timestamp")
FIRST = ["action_type", "message_type", "action_status"]

VALUES = [
    0, 1, -17, 2 ** 53 + 1, 1.5, -0.0, 1e-07, 1.7976931348623157e308, True, False, None,
    "", "plain", "with space", "quote\"s and 'single'", "k=v a=b", "café \U0001f600", "line1\nline2", "tab\there", "a\n\nb", "x\n \n\t\ny", "sep\u2028in\u2029value\x85end", "lone \ud83d surrogate",
    [1, [2, {"k": "v"}], []], {"a": {"b": [None, False]}, "z": 0}, ["a long list of strings"] * 6,
]
import math

TIMESTAMPS = [1443193754, 1443193754.000001, 1443193754.999999, 0, 2 ** 31, 1600000000.5,
              math.nextafter(1443193754.0, 0), math.nextafter(1443193755.0, 0), 1443193754.9999996,
              1443193754.9999994, 0.9999996, 59.9999997, 1443193799.9999998]
LEVELS = [[1], [3, 2, 1], [12, 1]]


def BOUNDS(tier):
    return {"max_lines": 4 if tier == "quick" else 5}


def program_messages():
    """Messages emitted by real programs, JSON round-tripped."""
    out = []
    ps = [
        [["a", {"sf": 2, "ef": 3}, [["m", {"fs": 2}], ["m", {"api": 5}], ["a", {"exit": 3}, []]]]],
        [["a", {"typed": 1, "sf": 4}, [["m", {"api": 4, "fs": 1}]]], ["m", {"fs": 3}]],
        [["m", {"api": 7}]],
        [["a", {"exit": 2, "style": 1}, [["m", {"fs": 5}]]]],
        [["a", {"style": 4, "sf": 1, "ef": 1}, []]],
        [["a", {"exit": 16}, []]],
    ]
    for p in ps:
        it, raw, seen = progs.run_to_file(p)
        out.extend(progs.parse_lines(raw))

    # destination failure reports
    def go():
        buf = io.BytesIO()
        bad = flt.Dest("bad", flt.Answers({}, lambda i, lab: 1))
        eliot.add_destinations(bad)
        eliot.to_file(buf)
        progs.Interp([["a", {}, [["m", {"fs": 2}]]]]).run()
        return buf.getvalue()

    out.extend(progs.parse_lines(world.run_isolated(go)))
    return out


def synthetic_messages():
    out = []
    for i, v in enumerate(VALUES):
        for ts in (TIMESTAMPS if i < 3 else TIMESTAMPS[:2] + [TIMESTAMPS[6 + i % 7]]):
            lv = LEVELS[i % len(LEVELS)]
            base = {"task_uuid": "8c668cde-235b-4872-af4e-caea524bd1c0", "task_level": lv, "timestamp": ts}
            out.append(dict(base, message_type="app:m", value=v))
            out.append(dict(base, action_type="app:a", action_status="started", value=v, another=[v]))
        out.append(dict(base))  # no type at all
        out.append(dict(base, message_type="", value=v))  # log_message("") / Message.log() without a type
        out.append(dict(base, action_type="", action_status="succeeded", value=v))  # start_action() default type
    return out


_POOL = None


def pool():
    global _POOL
    if _POOL is None:
        _POOL = program_messages() + synthetic_messages()
    return _POOL


def line_alphabet():
    msgs = pool()
    eliot_lines = [json.dumps(msgs[0]).encode(), json.dumps(msgs[7]).encode(), json.dumps(msgs[-3]).encode()]
    # what other producers of Eliot logs write: a UTF-8 signature in front of a line (text file opened with
    # utf-8-sig), integers beyond 64 bits and the NaN/Infinity tokens (the standard library's JSON encoder)
    eliot_lines.append(b"\xef\xbb\xbf" + json.dumps(msgs[7]).encode())
    eliot_lines.append(b'{"task_uuid": "8c668cde-235b-4872-af4e-caea524bd1c0", "task_level": [1], "timestamp": 1443193754.5, '
                       b'"message_type": "app:big", "total": 1180591620717411303424, "ratio": NaN, "limit": -Infinity}')
    m = msgs[1]
    lacking = []
    for k in HEADER:
        d = dict(m)
        del d[k]
        lacking.append(json.dumps(d).encode())
    return (
        [("eliot", l) for l in eliot_lines]
        + [("notjson", b"this is not json"), ("notjson", b"\xff\xfe\x00 invalid utf8"), ("notjson", b""), ("notjson", b"{\"a\": 1")]
        + [("noteliot", b"123"), ("noteliot", b"\"x\""), ("noteliot", b"null"), ("noteliot", b"true"), ("noteliot", b"[1, 2]")]
        + [("noteliot", l) for l in lacking]
        + [("noteliot", b"{}")]
    )


# values that are equal (or hash alike) without being the same JSON value: formatting one message must
# not influence how a later one is rendered
SEQ_VALUES = [0, 1, 1.0, 0.0, -0.0, True, False, "1", "", None, "true", [1], [True], [1.0]]


def seq_message(v, i):
    return {"task_uuid": "8c668cde-235b-4872-af4e-caea524bd1c0", "task_level": [i + 1], "timestamp": 1443193754.5,
            "message_type": "app:seq", "value": v, "flag": v}


def check_sequence(idxs, compact):
    fmt = pp.compact_format if compact else pp.pretty_format
    chk = check_compact if compact else check_pretty
    for n, vi in enumerate(idxs):
        msg = seq_message(SEQ_VALUES[vi], n)
        try:
            text = fmt(msg)
        except Exception as e:
            return [("sequence:raised", {"error": repr(e)})]
        v = chk(msg, text)
        if v:
            return [("sequence:" + v[0][0], dict(v[0][1], formatted_before=[repr(SEQ_VALUES[j]) for j in idxs[:n]],
                                                 value=repr(SEQ_VALUES[vi])))]
    return []


def units(tier):
    n = len(pool())
    out = [["fmt", i] for i in range(0, n, 40)]
    out.append(["fmtseq"])
    alpha = line_alphabet()
    for first in range(len(alpha)):
        out.append(["stream", first])
    out.append(["filter"])
    return out


def cases(unit, tier):
    if unit[0] == "fmt":
        for i in range(unit[1], min(unit[1] + 40, len(pool()))):
            yield ["fmt", i, 0]
            yield ["fmt", i, 1]
    elif unit[0] == "fmtseq":
        k = len(SEQ_VALUES)
        for a in range(k):
            for b in range(k):
                for compact in (0, 1):
                    yield ["fmtseq", [a, b], compact]
                    if tier != "quick":
                        for c in range(k):
                            yield ["fmtseq", [a, b, c], compact]
    elif unit[0] == "stream":
        alpha = line_alphabet()
        L = BOUNDS(tier)["max_lines"]
        for n in range(1, L + 1):
            for rest in itertools.product(range(len(alpha)), repeat=n - 1):
                for compact in (0, 1):
                    yield ["stream", [unit[1]] + list(rest), compact]
    else:
        n = len(pool())
        for expr in range(len(EXPRS)):
            for start in range(0, n, 25):
                for stream in range(len(STREAMS)):
                    yield ["filter", expr, start, stream]
        for expr in (0, 1, 2):
            for damaged_at in (None, 0, 2, 5):
                yield ["filterstream", expr, damaged_at]


# ---------------------------------------------------------------------------

def expected_order(msg):
    keys = [k for k in FIRST if k in msg]
    keys += [k for k in sorted(msg) if k not in HEADER and k not in FIRST]
    return keys


def check_timestamp(text, ts):
    if not text.endswith("Z"):
        return "timestamp-not-utc-marked"
    try:
        got = datetime.fromisoformat(text[:-1])
    except ValueError:
        return "timestamp-unparseable"
    want = datetime(1970, 1, 1) + timedelta(seconds=ts)
    if abs((got - want).total_seconds()) > 1.5e-6:
        return "timestamp-wrong"
    return None


def check_pretty(msg, text):
    lines = text.split("\n")
    if lines[-1] != "":
        return [("pretty:no-trailing-newline", {})]
    lines = lines[:-1]
    viol = []
    level = "/" + "/".join(str(x) for x in msg["task_level"])
    want0 = "%s ... %s" % (msg["task_uuid"], level)
    # the statement fixes what the header starts with (uuid, then level), not the separator
    if not lines or not lines[0].startswith(msg["task_uuid"]) or not lines[0].endswith(level) or "\n" in lines[0]:
        return [("pretty:header", {"got": lines[:1], "want": want0})]
    e = check_timestamp(lines[1] if len(lines) > 1 else "", msg["timestamp"])
    if e:
        return [("pretty:" + e, {"got": lines[1:2], "ts": msg["timestamp"]})]
    # split the remaining lines into fields
    fields = []
    for l in lines[2:]:
        m = re.match(r"^  ([^ |][^:]*): (.*)$", l)
        if m and not (fields and l.startswith(" " * (2 + len(fields[-1][0])) + "| ")):
            fields.append([m.group(1), [m.group(2)]])
        elif fields and l.startswith(" " * (2 + len(fields[-1][0])) + "| "):
            fields[-1][1].append(l[2 + len(fields[-1][0]) + 2:])
        else:
            return [("pretty:unparseable-line", {"line": l})]
    keys = [f[0] for f in fields]
    want = expected_order(msg)
    if keys != want:
        return [("pretty:fields-or-order", {"got": keys, "want": want})]
    for k, vlines in fields:
        v = msg[k]
        if "\\" in repr(v):
            # lossy layout: demand that every text line of every string inside appears
            for piece in _strings(v):
                for part in re.findall(r"[A-Za-z0-9]{2,}", piece):
                    if part not in "\n".join(vlines):
                        viol.append(("pretty:string-content-missing", {"key": k, "part": part}))
            continue
        try:
            got = ast.literal_eval("\n".join(vlines))
        except Exception as ex:
            viol.append(("pretty:value-unparseable", {"key": k, "text": vlines, "err": repr(ex)}))
            continue
        if not progs.same(v, got):
            viol.append(("pretty:value-differs", {"key": k, "want": repr(v), "got": repr(got)}))
    return viol


def _strings(v):
    if isinstance(v, str):
        yield v
    elif isinstance(v, list):
        for x in v:
            for s in _strings(x):
                yield s
    elif isinstance(v, dict):
        for k, x in v.items():
            yield k
            for s in _strings(x):
                yield s


def check_compact(msg, text):
    if "\n" in text or len(text.splitlines()) != 1:
        return [("compact:not-a-single-line", {"text": text[:200], "pieces": len(text.splitlines())})]
    level = "/" + "/".join(str(x) for x in msg["task_level"])
    m = re.match(re.escape(msg["task_uuid"]) + r"\W{0,4}?" + re.escape(level) + r" ", text)
    if not m:
        return [("compact:header", {"got": text[:80], "want": msg["task_uuid"] + level + " "})]
    rest = text[m.end():]
    ts, _, rest = rest.partition(" ")
    e = check_timestamp(ts, msg["timestamp"])
    if e:
        return [("compact:" + e, {"got": ts})]
    dec = json.JSONDecoder()
    pos = 0
    for k in expected_order(msg):
        if not rest.startswith(k + "=", pos):
            return [("compact:fields-or-order", {"at": rest[pos:pos + 60], "want_key": k})]
        pos += len(k) + 1
        try:
            v, end = dec.raw_decode(rest, pos)
        except ValueError as ex:
            return [("compact:value-not-json", {"key": k, "at": rest[pos:pos + 60]})]
        if not progs.same(msg[k], v):
            return [("compact:value-differs", {"key": k, "want": repr(msg[k]), "got": repr(v)})]
        pos = end
        if pos < len(rest):
            if rest[pos] != " ":
                return [("compact:separator", {"at": rest[pos:pos + 20]})]
            pos += 1
    if pos != len(rest):
        return [("compact:trailing-text", {"text": rest[pos:pos + 60]})]
    return []


def run_main(lines, compact):
    """Drive the real command-line entry point."""
    data = b"".join(l + b"\n" for l in lines)
    old = (pp.stdin, pp.stdout, sys.argv)
    pp.stdin = io.BytesIO(data)
    pp.stdout = io.StringIO()
    sys.argv = ["eliot-prettyprint"] + (["-c"] if compact else [])
    try:
        try:
            pp._main()
            err = None
        except BaseException as e:
            err = e
        return pp.stdout.getvalue(), err
    finally:
        pp.stdin, pp.stdout, sys.argv = old


def check_stream(idxs, compact):
    alpha = line_alphabet()
    lines = [alpha[i] for i in idxs]
    out, err = run_main([l for _, l in lines], compact)
    if err is not None:
        kinds = [k for k, _ in lines]
        raw = [l for k, l in lines if k == "noteliot"]
        nonobj = [l for l in raw if not l.startswith(b"{")]
        sig = "main-aborted:" + type(err).__name__
        if nonobj and isinstance(err, AttributeError):
            sig = "main-aborted-on-json-non-object-line"
        return [(sig, {"error": repr(err), "lines": [l.decode("latin1") for _, l in lines]})]
    pos = 0
    fmt = pp.compact_format if compact else pp.pretty_format
    for kind, l in lines:
        if kind == "eliot":
            want = fmt(json.loads(l)) + "\n"
            if not out.startswith(want, pos):
                return [("main:rendering-missing-or-out-of-order", {"at": out[pos:pos + 80]})]
            pos += len(want)
        else:
            prefix = "Not JSON: " if kind == "notjson" else "Not an Eliot message: "
            m = re.compile(re.escape(prefix) + r"[^\n]*\n\n").match(out, pos)
            if not m:
                return [("main:foreign-line-not-reported:" + kind, {"at": out[pos:pos + 80], "line": l.decode("latin1")})]
            pos = m.end()
    if pos != len(out):
        return [("main:extra-output", {"extra": out[pos:pos + 80]})]
    return []


EXPRS = [
    "J",
    "SKIP if J.get('message_type') == 'app:m' else J",
    "J['task_uuid']",
    "datetime.utcfromtimestamp(J['timestamp'])",
    "J.get('value')",
]


STREAMS = ["StringIO", "text stream encoded as UTF-8", "text stream encoded as ASCII (stdout under LANG=C)"]


def check_filter(expr_i, start, stream=0):
    msgs = pool()[start:start + 25]
    incoming = [json.dumps(m).encode() + b"\n" for m in msgs]
    raw = io.BytesIO()
    out = io.StringIO() if stream == 0 else io.TextIOWrapper(raw, encoding="utf-8" if stream == 1 else "ascii", newline="")
    viol = []

    class FakeSys(object):
        argv = ["eliot-filter", EXPRS[expr_i]]
        stdin = incoming
        stdout = out
        stderr = io.StringIO()

    try:
        rc = ef.main(FakeSys)
    except BaseException as e:
        return [("filter:raised", {"error": repr(e)[:200], "expr": EXPRS[expr_i], "stdout": STREAMS[stream]})]
    if rc != 0:
        viol.append(("filter:exit-status", {"rc": rc}))
    if stream == 0:
        text = out.getvalue()
    else:
        out.flush()
        text = raw.getvalue().decode("utf-8" if stream == 1 else "ascii")
    got = text.split("\n")
    if got[-1] != "":
        return [("filter:no-trailing-newline", {})]
    got = [json.loads(l) for l in got[:-1]]
    if expr_i == 0:
        want = msgs
    elif expr_i == 1:
        want = [m for m in msgs if m.get("message_type") != "app:m"]
    elif expr_i == 2:
        want = [m["task_uuid"] for m in msgs]
    elif expr_i == 4:
        want = [m.get("value") for m in msgs]
    else:
        want = [(datetime(1970, 1, 1) + timedelta(seconds=m["timestamp"])).isoformat() for m in msgs]
        if len(got) == len(want):
            for g, w in zip(got, want):
                try:
                    d = abs((datetime.fromisoformat(g) - datetime.fromisoformat(w)).total_seconds())
                except Exception:
                    d = 1
                if d > 1.5e-6:
                    return [("filter:datetime-projection", {"got": g, "want": w})]
            return viol
    if len(got) != len(want):
        return viol + [("filter:line-count", {"got": len(got), "want": len(want), "expr": EXPRS[expr_i]})]
    for g, w in zip(got, want):
        if not progs.same(w, g):
            return viol + [("filter:value-differs", {"got": repr(g)[:200], "want": repr(w)[:200]})]
    return viol


def check_filter_streaming(expr_i, damaged_at):
    """eliot.filter works line by line: what it has written when it asks for the next input line is the
    result for every line read so far, and a damaged line in the middle does not take back what was
    already written."""
    msgs = pool()[:6]
    lines = [json.dumps(m).encode() + b"\n" for m in msgs]
    if damaged_at is not None:
        lines[damaged_at] = b'{"task_uuid": "broken\n'
    out = io.StringIO()
    seen_at_pull = []

    def incoming():
        for l in lines:
            seen_at_pull.append(out.getvalue().count("\n"))
            yield l

    class FakeSys(object):
        argv = ["eliot-filter", EXPRS[expr_i]]
        stdin = incoming()
        stdout = out
        stderr = io.StringIO()

    raised = None
    try:
        ef.main(FakeSys)
    except BaseException as e:
        raised = e
    keep = lambda m: not (expr_i == 1 and m.get("message_type") == "app:m")
    upto = len(msgs) if damaged_at is None else damaged_at
    want_counts = []
    n = 0
    for i in range(len(msgs) if damaged_at is None else damaged_at + 1):
        want_counts.append(n)
        if i < upto and keep(msgs[i]):
            n += 1
    viol = []
    if seen_at_pull[: len(want_counts)] != want_counts:
        viol.append(("filter:not-line-by-line", {"written_before_each_input_line": seen_at_pull, "want": want_counts, "expr": EXPRS[expr_i]}))
    if damaged_at is not None:
        if raised is None:
            viol.append(("filter:damaged-line-accepted", {}))
        if out.getvalue().count("\n") != n:
            viol.append(("filter:output-before-a-damaged-line-lost", {"lines_written": out.getvalue().count("\n"), "want": n}))
    elif raised is not None:
        viol.append(("filter:raised", {"error": repr(raised)[:200]}))
    return viol


def run_case(case):
    if case[0] == "filterstream":
        viol = check_filter_streaming(case[1], case[2])
        return Result(outcome=["filterstream", case[1], case[2], len(viol)], nontrivial=True, violations=viol[:2])
    if case[0] == "fmt":
        msg = pool()[case[1]]
        if case[2] == 0:
            try:
                text = pp.pretty_format(msg)
            except Exception as e:
                return Result(outcome="raised", violations=[("pretty:raised", {"error": repr(e), "msg": repr(msg)[:300]})])
            viol = check_pretty(msg, text)
        else:
            try:
                text = pp.compact_format(msg)
            except Exception as e:
                return Result(outcome="raised", violations=[("compact:raised", {"error": repr(e), "msg": repr(msg)[:300]})])
            viol = check_compact(msg, text)
        return Result(outcome=text, nontrivial=len(msg) > 3, violations=[(s, dict(d, message=repr(msg)[:300])) for s, d in viol[:3]])
    if case[0] == "fmtseq":
        viol = check_sequence(case[1], case[2])
        return Result(outcome=[case[1], case[2], len(viol)], nontrivial=True, violations=viol[:2])
    if case[0] == "stream":
        viol = check_stream(case[1], case[2])
        return Result(outcome=[case[1], case[2], len(viol)], violations=viol[:2])
    viol = check_filter(case[1], case[2], case[3] if len(case) > 3 else 0)
    return Result(outcome=[case[1], case[2], len(viol)], violations=viol[:2])
