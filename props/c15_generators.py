"""
C15 - decorated generators keep their own action context and stay transparent.

Engine SEQ over driver schedules: 1-3 instances of generator bodies wrapped
with eliot_friendly_generator_function are driven by every step sequence up to
length L with <= k deviations from the default (round-robin, next(), no driver
action); a step is (generator, op in {next, send(v), throw(E), close, throw(a BaseException subclass), send(an exception instance), send(an exc_info-like tuple)}, driver
context in {none, inside X, inside Y, a copy of the driver's Context, another thread}).  Oracle: (a) after every resumption
current_action() inside the body *is* the top of that generator's own
reference stack (action current in the driver when it was first resumed plus
the actions it entered since) and everything it logs is a child of that
action; (b) the driver's current action is unchanged by every step;
(c) differential: the sequence of yielded values / raised exception objects /
returned values equals that of the undecorated generator driven identically.
"""

import re
import itertools
import threading
import contextvars

from vkit import world
from vkit.runner import Result
from vkit.world import eliot

from eliot import start_action, log_message, current_action
from eliot._generators import eliot_friendly_generator_function

ID = "C15"
LEVEL = "model_checking"
SHARDS = 4
RULE = (
    "generator configurations = every single body, every unordered pair and selected triples of 10 "
    "bodies (plain yields with return value, action spanning yields, action between yields, nested "
    "decorated generator via yield from, catching a thrown exception, try/finally logging on close, "
    "immediate return, two nested actions spanning a yield, catching a thrown exception / GeneratorExit and returning, the same one level down via yield from); driver step sequences of length L with "
    "<= k(L) deviations from (round-robin, next, no context), each deviation replacing a step by any other "
    "(generator, op, context) triple with context in {none, inside X, inside Y, copied Context, other thread}; states = distinct (per-generator reference stacks, driver "
    "context) vectors, transitions = driver steps; non-trivial = sequence with >= 1 deviation"
)
ASSUMPTIONS = [
    "the generator's context is the one current at its first resumption (statement: 'when it was started')",
    "eliot.twisted.inline_callbacks needs Twisted (absent); it is a composition over the checked decorator",
]


class Thrown(Exception):
    pass


class ThrownBase(BaseException):
    """Not an Exception: like asyncio.CancelledError / KeyboardInterrupt thrown into a coroutine."""


class Env(object):
    """Per generator instance: own reference stack and probes."""

    def __init__(self, name, problems, checking, seen):
        self.name = name
        self.problems = problems
        self.checking = checking
        self.seen = seen
        self.base = "UNSET"
        self.stack = []

    def top(self):
        if self.stack:
            return self.stack[-1]
        return None if self.base == "UNSET" else self.base

    def probe(self, where):
        if not self.checking:
            return
        cur = current_action()
        if cur is not self.top():
            self.problems.append(
                ("generator-body-in-foreign-context", {"gen": self.name, "where": where,
                                                      "expected": _n(self.top()), "got": _n(cur)})
            )

    def log(self, tag):
        n0 = len(self.seen)
        log_message("g:msg", gen=self.name, tag=tag)
        if self.checking and len(self.seen) > n0:
            m = self.seen[-1]
            p = self.top()
            ok = (m["task_uuid"] == p.task_uuid and m["task_level"][:-1] == world.action_level(p)) if p is not None else m["task_level"] == [1]
            if not ok:
                self.problems.append(("generator-message-wrong-parent", {"gen": self.name, "tag": tag, "level": m["task_level"], "parent": _n(p)}))

    def action(self, typ):
        env = self

        class Scope(object):
            def __enter__(s):
                parent = env.top()
                s.a = start_action(action_type=typ)
                if env.checking:
                    ok = (s.a.task_uuid == parent.task_uuid and world.action_level(s.a)[:-1] == world.action_level(parent)) if parent is not None else world.action_level(s.a) == []
                    if not ok:
                        env.problems.append(("generator-action-wrong-parent", {"gen": env.name, "level": world.action_level(s.a), "parent": _n(parent)}))
                s.a.__enter__()
                env.stack.append(s.a)
                env.probe("after-enter")
                return s.a

            def __exit__(s, *exc):
                env.stack.pop()
                r = s.a.__exit__(*exc)
                env.probe("after-exit")
                return r

        return Scope()


def _n(a):
    if a is None or a == "UNSET":
        return None
    return "%s@%s" % (world.action_type_of(a), world.action_level(a))


# --- bodies: each takes env and returns a generator -------------------------

def b_plain(env, deco):
    env.probe("start")
    x = yield 1
    env.probe("r1")
    y = yield ("got", x)
    env.probe("r2")
    return ("ret", x, y)


def b_span(env, deco):
    env.probe("start")
    with env.action("g:span"):
        x = yield 1
        env.probe("r1")
        env.log("in-span")
        y = yield ("got", x)
        env.probe("r2")
    z = yield 3
    env.probe("r3")
    return "span-done"


def b_between(env, deco):
    env.probe("start")
    yield 1
    env.probe("r1")
    with env.action("g:between"):
        env.log("between")
    yield 2
    env.probe("r2")
    env.log("tail")


def b_nested(env, deco):
    env.probe("start")
    with env.action("g:outer"):
        inner_env = Env(env.name + ".inner", env.problems, env.checking, env.seen)
        inner_env.base = env.top()
        inner = deco(b_span)(inner_env, deco)
        r = yield from inner
        env.probe("after-yield-from")
        yield ("inner-returned", r)
        env.probe("r-last")
    return "nested-done"


def b_catch(env, deco):
    env.probe("start")
    try:
        yield 1
    except (Thrown, ThrownBase) as e:
        env.probe("in-except")
        yield ("caught", type(e).__name__)
    env.probe("after-try")
    yield 2
    env.probe("r2")
    return "catch-done"


def b_finally(env, deco):
    env.probe("start")
    try:
        with env.action("g:fin"):
            yield 1
            env.probe("r1")
            yield 2
            env.probe("r2")
    finally:
        env.probe("in-finally")
        env.log("closing")


def b_return(env, deco):
    env.probe("start")
    yield 1
    env.probe("r1")
    return {"value": 42}


def b_two(env, deco):
    env.probe("start")
    with env.action("g:a"):
        with env.action("g:b"):
            yield 1
            env.probe("r1")
            env.log("deep")
        yield 2
        env.probe("r2")
    return "two-done"


def b_catch_return(env, deco):
    env.probe("start")
    try:
        yield 1
        env.probe("r1")
        yield 2
    except (Thrown, ThrownBase) as e:
        env.probe("in-except")
        return ("caught-and-returned", type(e).__name__)
    except GeneratorExit:
        env.probe("in-generator-exit")
        return "swallowed-close"
    return "not-thrown"


def b_nested_catch(env, deco):
    env.probe("start")
    inner_env = Env(env.name + ".inner", env.problems, env.checking, env.seen)
    inner_env.base = env.top()
    r = yield from deco(b_catch_return)(inner_env, deco)
    env.probe("after-yield-from")
    yield ("inner-returned", r)
    return "outer-done"


def b_hand_driven(env, deco):
    """The parent steps a decorated child by hand (no `yield from`): while the child is suspended inside
    its own action the parent keeps its own context, also when it leaves its action first."""
    env.probe("start")
    cenv = Env(env.name + ".child", env.problems, env.checking, env.seen)
    child = None
    try:
        with env.action("g:parent"):
            cenv.base = env.top()
            child = deco(b_span)(cenv, deco)
            v = next(child)
            env.probe("child-suspended-in-its-action")
            env.log("parent-while-child-suspended")
            x = yield ("child-yielded", v)
            env.probe("r1")
            v2 = child.send(x)
            env.probe("after-second-child-step")
            yield ("child-yielded", v2)
            env.probe("r2")
        env.probe("after-parent-action")
        env.log("tail")
    finally:
        if child is not None:
            child.close()
    env.probe("after-child-close")
    return "hand-driven-done"


def b_shared(env, deco):
    """Several generators continue one long-lived action with action.context() across their yields."""
    env.probe("start")
    shared = Env.SHARED
    with shared.context():
        env.stack.append(shared)
        try:
            env.probe("after-enter-shared")
            x = yield 1
            env.probe("r1")
            env.log("in-shared")
            y = yield ("got", x)
            env.probe("r2")
        finally:
            env.stack.pop()
    env.probe("after-shared")
    yield 3
    env.probe("r3")
    return "shared-done"


BODIES = [b_plain, b_span, b_between, b_nested, b_catch, b_finally, b_return, b_two, b_catch_return, b_nested_catch,
          b_hand_driven, b_shared]
N_CORE_BODIES = 10  # the last two are paired with themselves, with each other and with b_span only
OPS = ["next", "send", "throw", "close", "throw-base", "send-exception-instance", "send-exc_info-like-tuple"]


class SentError(Exception):
    """An exception object handed over as an ordinary value (e.g. the error of a failed job)."""



def BOUNDS(tier):
    # deviations allowed per sequence length
    if tier == "quick":
        return {"deviations_by_length": {1: 1, 2: 2, 3: 2, 4: 1, 5: 1}, "triples": 2}
    return {"deviations_by_length": {1: 1, 2: 2, 3: 3, 4: 2, 5: 2, 6: 1, 7: 1}, "triples": 4}


def configs(tier):
    out = [[i] for i in range(len(BODIES))]
    out += [[i, j] for i in range(N_CORE_BODIES) for j in range(i, N_CORE_BODIES)]
    out += [[10, 10], [11, 11], [10, 11], [1, 10], [1, 11]]
    triples = [[1, 5, 0], [3, 1, 4], [7, 7, 5], [1, 1, 1]]
    out += triples[: BOUNDS(tier)["triples"]]
    return out


def units(tier):
    b = BOUNDS(tier)
    return [[c, L, k] for c in configs(tier) for L, k in sorted(b["deviations_by_length"].items())]


def cases(unit, tier):
    cfg, L, k = unit
    G = len(cfg)
    default = [[i % G, 0, 0] for i in range(L)]
    alts = [[g, o, c] for g in range(G) for o in range(5) for c in range(5)]
    alts += [[g, o, c] for g in range(G) for o in (5, 6) for c in (0, 1)]
    for d in range(0, k + 1):
        for pos in itertools.combinations(range(L), d):
            choices = [[a for a in alts if a != default[p]] for p in pos]
            for combo in itertools.product(*choices):
                steps = [list(s) for s in default]
                for p, a in zip(pos, combo):
                    steps[p] = list(a)
                yield [cfg, steps]


def drive(cfg, steps, decorated):
    """Returns (observations, problems, states_seen)."""
    problems = []
    states = set()

    def go():
        seen = world.capture()
        X = start_action(action_type="driver:X")
        Y = start_action(action_type="driver:Y")
        Env.SHARED = start_action(action_type="driver:shared")
        ctxs = [None, X, Y, None, None]
        cache = {}

        def deco(f):
            # a generator function is decorated once and instantiated many times
            if not decorated:
                return f
            if f not in cache:
                cache[f] = eliot_friendly_generator_function(f)
            return cache[f]

        envs = [Env("g%d" % i, problems, decorated, seen) for i in range(len(cfg))]
        gens = [deco(BODIES[b])(envs[i], deco) for i, b in enumerate(cfg)]
        started = [False] * len(cfg)
        obs = []
        thrown = []
        for si, (g, o, c) in enumerate(steps):
            ctx = ctxs[c]
            gen = gens[g]

            def step():
                before = current_action()
                if not started[g] and o in (0, 1, 5, 6):
                    envs[g].base = before
                    started[g] = True
                try:
                    if o == 0:
                        r = ("yield", _v(next(gen)))
                    elif o == 1:
                        # a just-started generator only accepts None
                        r = ("yield", _v(gen.send("v%d" % si if _running(gen) else None)))
                    elif o in (5, 6):
                        # values that merely look like errors are still values
                        v = SentError("s%d" % si)
                        if o == 6:
                            v = (SentError, v, None)
                        r = ("yield", _v(gen.send(v if _running(gen) else None)))
                    elif o in (2, 4):
                        e = Thrown("t%d" % si) if o == 2 else ThrownBase("b%d" % si)
                        thrown.append(e)
                        if not started[g]:
                            started[g] = True
                            envs[g].base = before
                        r = ("yield", _v(gen.throw(e)))
                    else:
                        r = ("closed", gen.close())
                except StopIteration as e:
                    r = ("return", _v(e.value))
                except (Thrown, ThrownBase) as e:
                    r = ("raised", type(e).__name__, any(e is t for t in thrown) and e is thrown[-1] or _idx(e, thrown))
                except BaseException as e:
                    r = ("raised", type(e).__name__, re.sub(r"0x[0-9a-fA-F]+", "0x?", str(e))[:80])
                after = current_action()
                if decorated and after is not before:
                    problems.append(("driver-context-changed", {"step": si, "op": OPS[o], "before": _n(before), "after": _n(after)}))
                return r

            if c in (3, 4) and not decorated:
                # the undecorated reference is driven in one isolated context (a plain generator
                # holding a `with` block cannot be resumed from several Contexts at all)
                r = step()
            elif c == 3:
                # resume from a copy of the driver's Context (what a new asyncio task does)
                r = contextvars.copy_context().run(step)
            elif c == 4:
                # resume from another thread (fresh, empty Context)
                box = []
                t = threading.Thread(target=lambda: box.append(step()))
                t.start()
                t.join()
                r = box[0]
            elif ctx is None:
                r = step()
            else:
                with ctx.context():
                    r = step()
            if decorated and current_action() is not None:
                problems.append(("driver-context-not-restored", {"step": si}))
            obs.append(r)
            states.add((tuple(tuple(_n(a) for a in e.stack) for e in envs), c))
        for gen in gens:
            try:
                gen.close()
            except BaseException as e:
                obs.append(("close-raised", type(e).__name__))
        X.finish()
        Y.finish()
        return obs

    obs = world.run_isolated(go)
    return obs, problems, states


def _running(gen):
    import inspect

    return inspect.getgeneratorstate(gen) == "GEN_SUSPENDED"


def _idx(e, thrown):
    for i, t in enumerate(thrown):
        if t is e:
            return i
    return "foreign-exception-object"


def _v(x):
    if isinstance(x, tuple):
        return [_v(y) for y in x]
    if isinstance(x, Thrown):
        return "Thrown(%s)" % x
    if isinstance(x, BaseException):
        return "%s(%s)" % (type(x).__name__, x)
    if isinstance(x, type):
        return "class:" + x.__name__
    return x


def classify_diff(a, b):
    for i, (x, y) in enumerate(zip(a, b)):
        if x != y:
            if y[0] == "return" and x[0] == "return":
                return "return-value-lost" if x[1] is None else "return-value-changed"
            return "%s-vs-%s" % (y[0], x[0])
    return "length"


def run_case(case):
    cfg, steps = case
    obs_d, problems, states = drive(cfg, steps, True)
    obs_u, _, _ = drive(cfg, steps, False)
    viol = [(s, dict(d, steps=steps, cfg=cfg)) for s, d in problems[:3]]
    if obs_d != obs_u:
        viol.append(
            (
                "not-transparent:" + classify_diff(obs_d, obs_u),
                {"decorated": obs_d, "undecorated": obs_u, "steps": steps, "cfg": cfg},
            )
        )
    ndev = sum(1 for i, s in enumerate(steps) if s != [i % len(cfg), 0, 0])
    return Result(
        outcome=obs_d,
        nontrivial=ndev > 0,
        states=len(states),
        transitions=len(steps),
        executions=2,
        violations=viol[:3],
    )
