"""
C19 - the threaded writer passes every message to its destination in order,
off-thread.

Twisted is not installed.  The real eliot/logwriter.py is imported against
two-class stand-ins for twisted.application.service.Service (sets ``running``)
and twisted.internet.threads.deferToThreadPool (runs the callable on a
controlled thread, returns a completion handle).  threading.Thread and
SimpleQueue in that module are replaced by a scheduler-controlled thread and a
cooperative FIFO.  Engine THR explores all schedules with <= p preemptions at
line granularity in eliot/logwriter.py.
"""

import sys
import types
import threading as _threading

from vkit import world, thr
from vkit.runner import Result
from vkit.world import eliot


def _import_logwriter():
    names = [
        "twisted",
        "twisted.application",
        "twisted.application.service",
        "twisted.internet",
        "twisted.internet.threads",
    ]
    saved = {n: sys.modules.get(n) for n in names}
    mods = {n: types.ModuleType(n) for n in names}
    for n in names:
        mods[n].__path__ = []

    class Service(object):
        running = 0

        def startService(self):
            self.running = 1

        def stopService(self):
            self.running = 0

    class Handle(object):
        def __init__(self):
            self.done = False
            self.result = None

    def deferToThreadPool(reactor, pool, f, *a, **kw):
        h = Handle()

        def run():
            h.result = f(*a, **kw)
            h.done = True

        t = thr.CoopThread(target=run, name="pool")
        t.start()
        return h

    mods["twisted.application.service"].Service = Service
    mods["twisted.internet.threads"].deferToThreadPool = deferToThreadPool
    sys.modules.update(mods)
    import queue

    real_queue = queue.SimpleQueue
    # queues the module creates while it is imported (module or class level) are cooperative too
    queue.SimpleQueue = thr.CoopQueue
    try:
        sys.modules.pop("eliot.logwriter", None)
        import eliot.logwriter as lw
    finally:
        queue.SimpleQueue = real_queue
        for n in names:
            if saved[n] is None:
                sys.modules.pop(n, None)
            else:
                sys.modules[n] = saved[n]
    lw.threading = _ThreadingShim()
    lw.SimpleQueue = thr.CoopQueue
    return lw


LW_THREADS = []  # threads the module under test created during the current execution


class _RecordedThread(thr.CoopThread):
    def __init__(self, *a, **kw):
        thr.CoopThread.__init__(self, *a, **kw)
        LW_THREADS.append(self)


class _ThreadingShim(object):
    Thread = _RecordedThread

    def __getattr__(self, name):
        return getattr(_threading, name)


LW_FILE = _import_logwriter().__file__


def fresh_logwriter():
    """A freshly executed eliot.logwriter for every execution: no module- or class-level state of
    the writer survives from one explored schedule to the next."""
    return _import_logwriter()

ID = "C19"
CASE_TIMEOUT = 3600  # one case is a whole schedule exploration
LEVEL = "model_checking"
DETERMINISM_REPLAY = False  # engine verifies prefix replay and re-runs first/last schedule
RULE = (
    "harness = main thread (startService; spawn producers; join P1; stopService; wait for its result; "
    "optionally a second start/stop cycle with producer P3), producer P1 (1-2 messages, joined before "
    "stop), producer P2 (0-2 messages racing with stop), each offering directly to the writer or via "
    "log_message through the global destinations, the reader thread, the pool thread running the join; "
    "wrapped destination raising (an ordinary exception, or one whose str()/repr() raise) on a chosen subset of its calls (<= 2); plus two writers with their own "
    "destinations running at the same time (one stopped, optionally restarted, while the other still works); every schedule with <= p "
    "preemptions, at two granularities: (sync) scheduling points at queue put/get, thread start/join and "
    "blocking waits only, (line) additionally every source line of eliot/logwriter.py; "
    "states = schedule-tree nodes, transitions = scheduling decisions; non-trivial = every harness"
)
ASSUMPTIONS = [
    "Twisted absent: Service bookkeeping and deferToThreadPool are stand-ins; SimpleQueue FIFO/atomic put-get trusted (cooperative FIFO)",
    "messages racing with stopService may or may not be written (never twice, never out of order)",
]


class Reactor(object):
    def getThreadPool(self):
        return None


# (p1 messages, p2 messages, via log_message?, raise mask over destination calls, cycles)
HARNESSES = [
    {"p1": 2, "p2": 0, "via": "direct", "mask": [], "cycles": 1},
    {"p1": 1, "p2": 1, "via": "direct", "mask": [], "cycles": 1},
    {"p1": 2, "p2": 1, "via": "log", "mask": [], "cycles": 1},
    {"p1": 2, "p2": 0, "via": "direct", "mask": [0], "cycles": 1},
    {"p1": 2, "p2": 1, "via": "direct", "mask": [0, 1], "cycles": 1},
    {"p1": 1, "p2": 0, "via": "direct", "mask": [], "cycles": 2},
    {"p1": 1, "p2": 0, "via": "log", "mask": [1], "cycles": 2},
    {"p1": 2, "p2": 2, "via": "direct", "mask": [], "cycles": 1},
    # after the first cycle stopService is called once more (it is rejected: the writer is not
    # registered any more); the second cycle must be unaffected
    {"p1": 1, "p2": 0, "via": "direct", "mask": [], "cycles": 2, "double_stop": True},
    # the destination's exception cannot be turned into text
    {"p1": 2, "p2": 0, "via": "direct", "mask": [0], "cycles": 1, "exc": "no-text"},
    # two independent writers running at the same time, each with its own destination; B is stopped
    # while A still has work; the second variant restarts B afterwards
    {"writers": 2, "a": 2, "b": 1, "restart_b": False},
    {"writers": 2, "a": 1, "b": 1, "restart_b": True},
]
NSHARDS = 6


def BOUNDS(tier):
    if tier == "quick":
        return {"sync_granularity_preemptions": 2, "line_granularity_preemptions": 1, "two_writers_preemptions": 0, "harnesses": len(HARNESSES)}
    return {"sync_granularity_preemptions": 3, "line_granularity_preemptions": 2, "two_writers_preemptions": 1, "harnesses": len(HARNESSES)}


def units(tier):
    b = BOUNDS(tier)
    out = []
    for i in range(len(HARNESSES)):
        for k in range(NSHARDS):
            if HARNESSES[i].get("writers") == 2:
                # two writers: five threads; synchronisation-point granularity only
                out.append([i, "sync", b["two_writers_preemptions"], k])
                continue
            out.append([i, "sync", b["sync_granularity_preemptions"], k])
            out.append([i, "line", b["line_granularity_preemptions"], k])
    return out


def cases(unit, tier):
    yield unit


class DestBoom(Exception):
    pass


class DestBoomNoText(Exception):
    """A destination error that cannot be rendered: str()/repr()/format() of it raise."""

    def __str__(self):
        raise RuntimeError("no text")

    __repr__ = __str__


def run_two_writers(h, bound, shard, lines):
    """Each writer passes exactly what was offered to *it*, in order, to its own destination on its own thread."""
    funcs = {"startService", "stopService", "__call__", "_reader"}

    def setup(s):
        world.fresh()
        del LW_THREADS[:]
        lw = fresh_logwriter()
        eliot.add_destinations(lambda m: None)
        got = {"A": [], "B": []}
        offered = {"A": [], "B": []}
        stops = []
        callers = set()

        def dest(name):
            def d(msg):
                got[name].append((msg["id"], s.me().tid))

            return d

        with thr.cooperative_primitives():
            wa = lw.ThreadedWriter(dest("A"), Reactor())
            wb = lw.ThreadedWriter(dest("B"), Reactor())

        def producer(w, name, ids):
            def f():
                callers.add(s.me().tid)
                for mid in ids:
                    w({"id": mid})
                    offered[name].append(mid)

            return f

        def stop(w, name):
            hd = w.stopService()
            s.block_until(lambda: hd.done, ("wait-stop", name))
            stops.append((name, list(offered[name]), [m for m, _ in got[name]]))

        def main():
            callers.add(s.me().tid)
            wa.startService()
            wb.startService()
            pa = thr.CoopThread(target=producer(wa, "A", ["a%d" % i for i in range(h["a"])]), name="PA")
            pa.start()
            producer(wb, "B", ["b%d" % i for i in range(h["b"])])()
            stop(wb, "B")
            if h["restart_b"]:
                wb.startService()
                wb({"id": "b-again"})
                offered["B"].append("b-again")
            pa.join()
            stop(wa, "A")
            if h["restart_b"]:
                stop(wb, "B")

        def observe(s):
            return {"got": {k: list(v) for k, v in got.items()}, "offered": {k: list(v) for k, v in offered.items()},
                    "stops": list(stops), "callers": sorted(callers),
                    "alive": [t.is_alive() for t in LW_THREADS]}

        return [("M", main)], observe

    viol = []
    execs = states = transitions = 0
    by_pre = {}
    seen = set()
    for x in thr.explore(setup, bound, trace_files=[LW_FILE] if lines else [], trace_funcs=funcs, shard=shard):
        execs += 1
        transitions += len(x.choices)
        states += 1 + len(x.choices)
        by_pre[x.preemptions] = by_pre.get(x.preemptions, 0) + 1
        o = x.obs
        seen.add(repr((o["got"], o["offered"])))
        info = {"schedule": [c[3] for c in x.choices], "preemptions": x.preemptions, "harness": h}
        if x.sched.deadlock:
            viol.append(("two-writers:deadlock", dict(info, threads=x.sched.deadlock)))
            continue
        if x.sched.horizon_hit:
            viol.append(("two-writers:livelock-horizon", info))
            continue
        for t in x.sched.threads:
            if t.exc is not None:
                viol.append(("two-writers:thread-raised:" + type(t.exc).__name__, dict(info, thread=t.name, exc=repr(t.exc))))
        for name in ("A", "B"):
            ids = [m for m, _ in o["got"][name]]
            if ids != o["offered"][name]:
                viol.append(("two-writers:destination-did-not-get-exactly-what-its-writer-was-offered",
                             dict(info, writer=name, offered=o["offered"][name], written=ids, other=[m for m, _ in o["got"]["B" if name == "A" else "A"]])))
            tids = set(t for _, t in o["got"][name])
            if tids & set(o["callers"]):
                viol.append(("two-writers:written-on-caller-thread", dict(info, writer=name)))
            if len(tids) > (2 if (name == "B" and h["restart_b"]) else 1):
                viol.append(("two-writers:more-than-one-writer-thread", dict(info, writer=name, threads=len(tids))))
        for name, off, wr in o["stops"]:
            if [m for m in off if m not in wr]:
                viol.append(("two-writers:stop-completed-before-drain", dict(info, writer=name, offered=off, written=wr)))
        if any(o["alive"]):
            viol.append(("two-writers:reader-still-alive-after-stop", info))
        if len(viol) >= 4:
            break
    best = {}
    for sig, d in viol:
        if sig not in best or d.get("preemptions", 9) < best[sig].get("preemptions", 9):
            best[sig] = d
    return execs, states, transitions, by_pre, seen, sorted(best.items())


def run_harness(hi, bound, shard, lines=True):
    h = HARNESSES[hi]
    if h.get("writers") == 2:
        return run_two_writers(h, bound, shard, lines)
    funcs = {"startService", "stopService", "__call__", "_reader"}

    def setup(s):
        world.fresh()
        del LW_THREADS[:]
        lw = fresh_logwriter()
        eliot.add_destinations(lambda m: None)  # leave buffering mode
        written = []  # (msg id, thread ident)
        calls = [0]
        offered = []  # queue order as seen by producers, plus markers
        events = []
        idents = {}

        def dest(msg):
            i = calls[0]
            calls[0] += 1
            mid = msg.get("id") if isinstance(msg, dict) else msg
            written.append((mid, s.me().tid))
            if i in h["mask"]:
                raise (DestBoomNoText() if h.get("exc") == "no-text" else DestBoom("boom"))

        with thr.cooperative_primitives():
            w = lw.ThreadedWriter(dest, Reactor())

        def offer(mid):
            if h["via"] == "log":
                eliot.log_message("c19", id=mid)
            else:
                w({"id": mid})
            offered.append(mid)

        def producer(name, ids):
            def f():
                idents[name] = s.me().tid
                for mid in ids:
                    offer(mid)

            return f

        def main():
            idents["main"] = s.me().tid
            nid = [0]

            def ids(n, tag):
                out = []
                for _ in range(n):
                    nid[0] += 1
                    out.append("%s%d" % (tag, nid[0]))
                return out

            for cycle in range(h["cycles"]):
                w.startService()
                p1 = thr.CoopThread(target=producer("p1.%d" % cycle, ids(h["p1"], "a")), name="P1")
                p2 = thr.CoopThread(target=producer("p2.%d" % cycle, ids(h["p2"], "b")), name="P2")
                p1.start()
                if h["p2"]:
                    p2.start()
                p1.join()
                offered.append("STOP-CALLED")
                handle = w.stopService()
                s.block_until(lambda: handle.done, ("wait-stop",))
                events.append(("stop-completed", [m for m, _ in written]))
                if h["p2"]:
                    p2.join()
                if h.get("double_stop") and cycle == 0:
                    try:
                        w.stopService()
                        events.append(("second-stop-accepted",))
                    except ValueError:
                        events.append(("second-stop-rejected",))
                offered.append("CYCLE-END")

        def observe(s):
            return {
                "written": [m for m, _ in written],
                "writer_threads": sorted(set(t for _, t in written)),
                "offered": list(offered),
                "events": events,
                "idents": dict(idents),
                "reader_alive": any(t.is_alive() for t in LW_THREADS),
            }

        return [("M", main)], observe

    viol = []
    execs = states = transitions = 0
    by_pre = {}
    seen = set()
    for x in thr.explore(setup, bound, trace_files=[LW_FILE] if lines else [], trace_funcs=funcs, shard=shard):
        execs += 1
        transitions += len(x.choices)
        states += 1 + len(x.choices)
        by_pre[x.preemptions] = by_pre.get(x.preemptions, 0) + 1
        o = x.obs
        seen.add(repr((o["written"], [e for e in o["offered"] if True])))
        sched = [c[3] for c in x.choices]
        info = {"schedule": sched, "preemptions": x.preemptions, "harness": h}
        if x.sched.deadlock:
            viol.append(("deadlock", dict(info, threads=x.sched.deadlock)))
            continue
        if x.sched.horizon_hit:
            viol.append(("livelock-horizon", info))
            continue
        for t in x.sched.threads:
            if t.exc is not None:
                viol.append(("thread-raised:" + type(t.exc).__name__, dict(info, thread=t.name, exc=repr(t.exc))))
        written = o["written"]
        if len(set(written)) != len(written):
            viol.append(("written-twice", dict(info, written=written)))
        # must-deliver set: everything offered before STOP-CALLED in each cycle
        must = []
        may = []
        before = True
        for e in o["offered"]:
            if e == "STOP-CALLED":
                before = False
            elif e == "CYCLE-END":
                before = True
            elif before:
                must.append(e)
            else:
                may.append(e)
        missing = [m for m in must if m not in written]
        if missing:
            viol.append(("offered-before-stop-not-written", dict(info, missing=missing, written=written, offered=o["offered"])))
        # order: written must be a subsequence of the offered (queue) order
        order = [e for e in o["offered"] if e not in ("STOP-CALLED", "CYCLE-END")]
        pos = {m: i for i, m in enumerate(order)}
        idx = [pos.get(m, -1) for m in written]
        if -1 in idx:
            viol.append(("written-but-never-offered", dict(info, written=written)))
        elif idx != sorted(idx):
            viol.append(("written-out-of-order", dict(info, written=written, offered=order)))
        # stop completes only after everything offered before it was written
        cyc = 0
        must_by_cycle = [[]]
        before = True
        for e in o["offered"]:
            if e == "STOP-CALLED":
                before = False
            elif e == "CYCLE-END":
                must_by_cycle.append(list(must_by_cycle[-1]))
                before = True
            elif before:
                must_by_cycle[-1].append(e)
        for ci, ev in enumerate([e for e in o["events"] if e[0] == "stop-completed"]):
            lacking = [m for m in must_by_cycle[ci] if m not in ev[1]]
            if lacking:
                viol.append(("stop-completed-before-drain", dict(info, lacking=lacking)))
        # off-thread, single thread per cycle
        producers = set(o["idents"].values())
        if set(o["writer_threads"]) & producers:
            viol.append(("written-on-caller-thread", info))
        if len(o["writer_threads"]) > h["cycles"]:
            viol.append(("more-than-one-writer-thread", dict(info, threads=len(o["writer_threads"]))))
        if o["reader_alive"]:
            viol.append(("reader-still-alive-after-stop", info))
        if len(viol) >= 4:
            break
    best = {}
    for sig, d in viol:
        if sig not in best or d.get("preemptions", 9) < best[sig].get("preemptions", 9):
            best[sig] = d
    return execs, states, transitions, by_pre, seen, sorted(best.items())


def run_case(case):
    hi, mode, bound, k = case
    try:
        execs, states, transitions, by_pre, seen, viol = run_harness(hi, bound, (k, NSHARDS), lines=(mode == "line"))
    finally:
        world.fresh()
    return Result(
        outcome=[execs, sorted(by_pre.items()), sorted(seen)],
        states=states,
        transitions=transitions,
        executions=execs,
        violations=viol[:4],
        extra={
            "schedules_%s_granularity" % mode: execs,
            "schedules_with_0_preemptions": by_pre.get(0, 0),
            "schedules_with_1_preemption": by_pre.get(1, 0),
            "schedules_with_2_preemptions": by_pre.get(2, 0),
            "schedules_with_3_preemptions": by_pre.get(3, 0),
            "distinct_written_offered_outcomes": set(seen),
        },
    )


def sanity(summary, tier):
    x = summary["extra"]
    probs = []
    if len(x.get("distinct_written_offered_outcomes", ())) < 8:
        probs.append("schedules hardly differ: producers, reader and stop never raced")
    if x.get("schedules_line_granularity", 0) < 1000 or x.get("schedules_sync_granularity", 0) < 1000:
        probs.append("too few schedules")
    return probs
