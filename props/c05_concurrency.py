"""
C05 - concurrent threads and coroutines never leak action context into each other
(and, on the same schedules, C02's placement invariant under concurrency).

Threads (engine THR, call-boundary granularity): main enters action A, spawns
2-3 workers (raw threads or threads running preserve_context(f)), logs, joins
them, leaves A.  A scheduling point precedes every logging call of every
thread; all interleavings are explored (no preemption bound).
Coroutines (engine AIO): a parent coroutine inside A creates 2-3 asyncio tasks
with create_task/gather; every await point is a pause resolved by the
explorer in every possible order.

Oracle: (1) after every operation current_action() *is* the action on top of
that worker's own reference stack; (2) the merged log parses to a forest whose
canonical form is identical for every schedule and equals the reference;
(3) vkit.structinv on the merged stream (violations are attributed to C02 and
prefixed 'C02:').
"""

import json
import asyncio
import contextvars

from vkit import progs, world, thr, aio, structinv
from vkit.runner import Result
from vkit.world import eliot

from eliot import start_action, start_task, log_message, current_action, preserve_context
from eliot.parse import Parser

ID = "C05"
CASE_TIMEOUT = 3600  # one case is a whole schedule exploration
LEVEL = "model_checking"
DETERMINISM_REPLAY = False  # engines verify replay of prefixes themselves
RULE = (
    "threads: main {enter A; spawn k workers; log; join; leave A} with worker kinds {raw thread, "
    "preserve_context thread, thread running in a copy of the spawner's context (asyncio.to_thread)} x worker bodies from 9 small logging programs (messages, nested actions, "
    "failing action, start_task, re-entering the shared parent action's context()), k = 2 (all ordered pairs of kind x body from a reduced set) and k = 3 "
    "(selected); scheduling point before every logging call; ALL interleavings.  coroutines: parent in A "
    "creates k tasks (same bodies, await point before every op) and logs between awaits; ALL resolution "
    "orders of pending awaits.  projections: 2-3 threads x 1-3 operations from {message, action, action failing "
    "with an exception whose extractor raises / returns fields, OSError, message a destination fails on, "
    "typed message whose serializer raises, write_traceback, add_global_fields, log_call function}, scheduling "
    "point before every operation and inside every logging call (slow destination); every thread's own "
    "message list must equal the one of the sequential schedule.  states = schedule-tree nodes, transitions = scheduling decisions; "
    "non-trivial = harness with > 1 distinct emission order"
)
ASSUMPTIONS = [
    "structured concurrency: spawned work is joined before the enclosing action ends",
    "threads do not share one Action object (documented); thread switches at logging-call boundaries",
    "stock asyncio event loop driven by hand; trio not installed",
]

# worker bodies: ["m"] message, ["a", fails, [body]] action, ["t", [body]] start_task
BODIES = [
    [["m"]],
    [["a", 0, [["m"]]]],
    [["a", 1, [["m"]]]],
    [["m"], ["a", 0, []]],
    [["t", [["m"]]]],
    [["a", 0, [["a", 0, [["m"]]]]]],
    [["a", 0, [["m"]]], ["m"]],
    # 7, 8: re-enter the context of the worker's base action (for asyncio children: the parent's
    # action, shared by all children) with action.context() / action.run()
    [["c", [["m"]]], ["m"]],
    [["a", 0, [["c", [["m"]]]]], ["m"]],
    # 9: from inside an own action, re-enter the shared action's context (displaces a different
    # action in every worker)
    [["a", 0, [["c", []]]]],
    # 10: enter (with) an action that the spawning thread started and handed over, with work before and after
    [["m"], ["j", [["m"]]], ["m"]],
]


class Boom(Exception):
    pass


class Worker(object):
    """Interprets a body, keeps the worker's own reference stack of real Action
    objects and checks current_action() identity after every operation."""

    def __init__(self, name, base, problems):
        self.name = name
        self.base = base
        self.stack = [base] if base is not None else []
        self.problems = problems
        self.n = 0
        self.forest = []  # reference: what this worker logged in its base context
        self.tasks = []  # trees begun with start_task: always new top-level trees
        self.refstack = [self.forest]

    def expect(self):
        return self.stack[-1] if self.stack else None

    def check(self, where):
        cur = current_action()
        if cur is not self.expect():
            self.problems.append(
                (
                    "context-leak",
                    {
                        "worker": self.name,
                        "where": where,
                        "expected": _aname(self.expect()),
                        "got": _aname(cur),
                    },
                )
            )

    def label(self):
        self.n += 1
        return "%s.%d" % (self.name, self.n)

    # synchronous interpreter (threads); point() is the scheduling point
    def run_sync(self, body, point):
        if getattr(self, "seed_rng", False) and not getattr(self, "_seeded", False):
            # an application thread that makes its own random numbers reproducible
            import random

            self._seeded = True
            point()
            random.seed(4242)
        for st in body:
            point()
            self.check("before-op")
            if st[0] == "m":
                lab = self.label()
                self.refstack[-1].append(["m", lab])
                log_message("w:msg", who=lab)
                self.check("after-log")
            elif st[0] == "c":
                base = self.base
                with base.context():
                    self.stack.append(base)
                    self.refstack.append(self.forest)
                    self.check("after-enter-shared-context")
                    try:
                        self.run_sync(st[1], point)
                        point()
                        self.check("before-exit-shared-context")
                    finally:
                        self.stack.pop()
                        self.refstack.pop()
                self.check("after-exit-shared-context")
            elif st[0] == "j":
                job, node = self.job, self.job_node
                with job:
                    self.stack.append(job)
                    self.refstack.append(node[3])
                    self.check("after-enter-handed-over-action")
                    try:
                        self.run_sync(st[1], point)
                        point()
                        self.check("before-exit-handed-over-action")
                    finally:
                        self.stack.pop()
                        self.refstack.pop()
                node[2] = "succeeded"
                self.check("after-exit-handed-over-action")
            elif st[0] in ("a", "t"):
                lab = self.label()
                node = ["a", lab, None, []]
                (self.tasks if st[0] == "t" else self.refstack[-1]).append(node)
                fails = st[1] if st[0] == "a" else 0
                inner = st[2] if st[0] == "a" else st[1]
                mk = start_action if st[0] == "a" else start_task
                try:
                    with mk(action_type="w:act", who=lab) as act:
                        self.stack.append(act)
                        self.refstack.append(node[3])
                        self.check("after-enter")
                        try:
                            self.run_sync(inner, point)
                            point()
                            self.check("before-exit")
                            if fails:
                                raise Boom(lab)
                        finally:
                            self.stack.pop()
                            self.refstack.pop()
                except Boom:
                    node[2] = "failed"
                else:
                    node[2] = "succeeded"
                self.check("after-exit")

    async def run_async(self, body, pause):
        for st in body:
            await pause(self.name)
            self.check("before-op")
            if st[0] == "m":
                lab = self.label()
                self.refstack[-1].append(["m", lab])
                log_message("w:msg", who=lab)
                self.check("after-log")
            elif st[0] == "c":
                base = self.base
                with base.context():
                    self.stack.append(base)
                    self.refstack.append(self.forest)
                    self.check("after-enter-shared-context")
                    try:
                        await self.run_async(st[1], pause)
                        await pause(self.name)
                        self.check("before-exit-shared-context")
                    finally:
                        self.stack.pop()
                        self.refstack.pop()
                self.check("after-exit-shared-context")
            elif st[0] in ("a", "t"):
                lab = self.label()
                node = ["a", lab, None, []]
                (self.tasks if st[0] == "t" else self.refstack[-1]).append(node)
                fails = st[1] if st[0] == "a" else 0
                inner = st[2] if st[0] == "a" else st[1]
                mk = start_action if st[0] == "a" else start_task
                try:
                    with mk(action_type="w:act", who=lab) as act:
                        self.stack.append(act)
                        self.refstack.append(node[3])
                        self.check("after-enter")
                        try:
                            await self.run_async(inner, pause)
                            await pause(self.name)
                            self.check("before-exit")
                            if fails:
                                raise Boom(lab)
                        finally:
                            self.stack.pop()
                            self.refstack.pop()
                except Boom:
                    node[2] = "failed"
                else:
                    node[2] = "succeeded"
                self.check("after-exit")


def _aname(a):
    if a is None:
        return None
    return world.action_type_of(a) + str(world.action_level(a))


# ---------------------------------------------------------------------------

def _has_task(body):
    return any(st[0] == "t" for st in body)


def thread_harnesses(tier):
    out = []
    small = [0, 1, 2, 4] if tier == "quick" else [0, 1, 2, 3, 4, 6]
    for k1, k2 in (("raw", "raw"), ("raw", "pc"), ("pc", "pc")):
        for i, b1 in enumerate(small):
            for b2 in small[i:] if k1 == k2 else small:
                out.append([[k1, b1], [k2, b2]])
    out.append([["raw", 5], ["pc", 0]])
    if tier == "thorough":
        out.append([["raw", 5], ["pc", 6]])
    out.append([["raw", 4, "seed"], ["raw", 4, "seed"]])
    out.append([["raw", 1, "seed"], ["raw", 0, "seed"]])
    out += [[["raw", 10], ["raw", 0]], [["raw", 10], ["pc", 1]]]
    out += [[["ctx", 0], ["raw", 1]], [["ctx", 1], ["pc", 0]], [["ctx", 7], ["raw", 0]], [["ctx", 2], ["ctx", 4]]]
    three = [[["raw", 0], ["pc", 0], ["raw", 4]]]
    if tier == "thorough":
        out.append([["pc", 5], ["pc", 6]])
        three += [[["raw", 0], ["pc", 1], ["raw", 2]], [["pc", 1], ["pc", 2], ["raw", 0]], [["raw", 1], ["raw", 1], ["raw", 0]]]
    return out + three


def aio_harnesses(tier):
    out = []
    small = [0, 1, 2, 4, 3]
    for i, b1 in enumerate(small):
        for b2 in small[i:]:
            out.append([b1, b2])
    out += [[1, 5]]
    out += [[7, 7], [7, 1], [7, 0], [7, 2], [9, 9], [9, 7]]
    out += [[0, 1, "explicit"], [1, 1, "explicit"], [0, 0, "explicit"]]
    out += [[0, 1, 0]]
    if tier == "thorough":
        out += [[8, 7], [8, 2], [8, 8], [5, 6], [6, 6], [5, 5], [0, 1, 2], [1, 1, 0], [1, 2, 4]]
    return out


def BOUNDS(tier):
    return {
        "thread_harnesses": len(thread_harnesses(tier)),
        "aio_harnesses": len(aio_harnesses(tier)),
        "projection_harnesses": len(proj_harnesses(tier)),
        "preemption_bound": "unbounded (all interleavings at call-boundary granularity)",
    }


def proj_harnesses(tier):
    """Threads whose logging calls can be interleaved *inside* the call (slow destination): each
    thread's own log must not depend on the schedule (vkit/proj.py)."""
    from vkit import proj

    multi = [
        (("badx", "m"), ("errno", "poison")),
        (("m",), ("badx",), ("poison",)),
        (("badx", "custom"), ("custom", "badx")),
        (("badser", "poison"), ("poison", "badser")),
    ]
    if tier == "thorough":
        multi += [
            (("badx",), ("badx",), ("badx",)),
            (("poison",), ("poison",), ("badser",)),
            (("ok", "badx", "m"), ("errno", "tb")),
            (("call", "poison"), ("badser", "custom")),
        ]
    return proj.harnesses(proj.OPS, two_op=multi)


def units(tier):
    return [["thr", i] for i in range(len(thread_harnesses(tier)))] + [
        ["aio", i] for i in range(len(aio_harnesses(tier)))
    ] + [["proj", i] for i in range(len(proj_harnesses(tier)))]


def cases(unit, tier):
    if unit[0] == "thr":
        yield ["thr", thread_harnesses(tier)[unit[1]]]
    elif unit[0] == "proj":
        yield ["proj", proj_harnesses(tier)[unit[1]]]
    else:
        yield ["aio", aio_harnesses(tier)[unit[1]]]


# ---------------------------------------------------------------------------
# canonical forest of the merged log

def canon_node(n, sort_children_of=None):
    if n["k"] == "m":
        return ["m", n["fields"].get("who")]
    kids = [canon_node(c, sort_children_of) for c in n["children"]]
    who = n["start"].get("who") if isinstance(n["start"], dict) else None
    if sort_children_of is not None and who == sort_children_of:
        kids.sort(key=lambda x: json.dumps(x))
    return ["a", n["type"], who, n["status"], kids]


def canon_forest(msgs, sort_children_of=None):
    tasks = list(Parser.parse_stream(msgs))
    incomplete = [t for t in tasks if not t.is_complete()]
    forest = [canon_node(progs.from_written(t.root()), sort_children_of) for t in tasks]
    forest.sort(key=lambda x: json.dumps(x))
    return forest, len(incomplete)


def ref_nodes(nodes):
    out = []
    for n in nodes:
        if n[0] == "m":
            out.append(["m", n[1]])
        else:
            out.append(["a", n[4] if len(n) > 4 else "w:act", n[1], n[2], ref_nodes(n[3])])
    return out


# ---------------------------------------------------------------------------

def run_threads(harness):
    def setup(s):
        world.fresh()
        seen = world.capture()
        problems = []
        workers = []
        box = {}
        jobs = []

        def main():
            me = Worker("M", None, problems)
            point = lambda: s.point(("op", "M"))
            with start_action(action_type="main:A", who="A") as A:
                me.stack.append(A)
                me.check("after-enter-A")
                threads = []
                for i, spec in enumerate(harness):
                    kind, bi = spec[0], spec[1]
                    name = "W%d" % i
                    if kind == "raw":
                        w = Worker(name, None, problems)
                        w.seed_rng = len(spec) > 2
                        fn = (lambda w=w, bi=bi: w.run_sync(BODIES[bi], lambda: s.point(("op", w.name))))
                    elif kind == "ctx":
                        # a thread that runs in a copy of the spawner's context (asyncio.to_thread,
                        # contextvars.copy_context().run): the spawner's action is its current action
                        w = Worker(name, A, problems)
                        ctx = contextvars.copy_context()
                        fn = (lambda w=w, bi=bi, ctx=ctx: ctx.run(w.run_sync, BODIES[bi], lambda: s.point(("op", w.name))))
                    else:
                        w = Worker(name, "REMOTE", problems)

                        def inner(w=w, bi=bi):
                            # base action: the eliot:remote_task action created by preserve_context
                            w.stack[0] = current_action()
                            if w.stack[0] is None or world.action_type_of(w.stack[0]) != "eliot:remote_task":
                                problems.append(("preserve_context-worker-not-in-remote-task", {"worker": w.name}))
                            w.run_sync(BODIES[bi], lambda: s.point(("op", w.name)))

                        fn = preserve_context(inner)
                    if any(st[0] == "j" for st in BODIES[bi]):
                        # started here (a child of A), entered by the worker
                        w.job = start_action(action_type="w:job", who=name + ".job")
                        w.job_node = ["a", name + ".job", None, [], "w:job"]
                        jobs.append(w.job_node)
                    workers.append((kind, w))
                    t = thr.CoopThread(target=fn, name=name)
                    threads.append(t)
                for t in threads:
                    t.start()
                    me.check("after-spawn")
                point()
                lab = me.label()
                log_message("w:msg", who=lab)
                me.check("after-log")
                for t in threads:
                    t.join()
                    me.check("after-join")
                point()
                lab = me.label()
                log_message("w:msg", who=lab)
                me.stack.pop()
            me.check("after-exit-A")
            box["done"] = True

        def observe(s):
            return {
                "msgs": list(seen),
                "problems": list(problems),
                "workers": [(k, w.name, w.forest, w.tasks) for k, w in workers],
                "jobs": list(jobs),
                "done": box.get("done", False),
            }

        return [("M", lambda: contextvars.Context().run(main))], observe

    # reference canonical forest
    def reference(obs):
        a_children = []
        top = []
        remote = []
        for kind, name, forest, tasks in obs["workers"]:
            top.extend(ref_nodes(tasks))
            if kind == "raw":
                # no current action: each action is its own task, each message a one-message task
                top.extend(ref_nodes(forest))
            elif kind == "ctx":
                a_children.extend(ref_nodes(forest))
            else:
                remote.append(["a", "eliot:remote_task", None, "succeeded", ref_nodes(forest)])
        a_children = remote + a_children + ref_nodes(obs.get("jobs", [])) + [["m", "M.1"], ["m", "M.2"]]
        a_children.sort(key=lambda x: json.dumps(x))
        top.append(["a", "main:A", "A", "succeeded", a_children])
        top.sort(key=lambda x: json.dumps(x))
        return top

    viol = []
    execs = states = transitions = 0
    orders = set()
    forests = set()
    for x in thr.explore(setup, 99, op_points_only=True):
        execs += 1
        transitions += len(x.choices)
        states += 1 + len(x.choices)
        o = x.obs
        sched = [c[3] for c in x.choices]
        if x.sched.deadlock or not o["done"]:
            viol.append(("deadlock-or-main-died", {"schedule": sched, "threads": x.sched.deadlock,
                                                   "exc": [repr(t.exc) for t in x.sched.threads if t.exc]}))
            continue
        for t in x.sched.threads:
            if t.exc is not None:
                viol.append(("thread-raised", {"thread": t.name, "exc": repr(t.exc), "schedule": sched}))
        for sig, d in o["problems"][:2]:
            viol.append((sig, dict(d, schedule=sched)))
        orders.add(tuple(m.get("who") or m.get("action_type") for m in o["msgs"]))
        try:
            forest, ninc = canon_forest(o["msgs"], sort_children_of="A")
        except Exception as e:
            viol.append(("parser-raised", {"error": repr(e)[:200], "schedule": sched}))
            continue
        fkey = json.dumps(forest)
        forests.add(fkey)
        if ninc:
            viol.append(("incomplete-task", {"schedule": sched}))
        want = reference(o)
        if forest != want:
            viol.append(("forest-differs-from-reference", {"schedule": sched, "got": forest, "want": want}))
        for sig, d in structinv.check_stream(
            o["msgs"], order=True, order_exempt=lambda m: m.get("action_type") == "eliot:remote_task"
        ):
            viol.append(("C02:" + sig, dict(d, schedule=sched)))
        if len(viol) >= 4:
            break
    if len(forests) > 1 and not viol:
        viol.append(("schedule-dependent-forest", {"distinct": len(forests)}))
    return execs, states, transitions, len(orders), len(forests), viol


def run_aio(harness):
    explicit = bool(harness) and harness[-1] == "explicit"
    if explicit:
        harness = harness[:-1]

    def main_factory(problems, seen_box):
        async def main_explicit(run):
            """The parent starts A, spawns the children inside `with A.context():`, leaves that block,
            awaits them, then finishes A explicitly (still structured: joined before A ends)."""
            world.fresh()
            seen = world.capture()
            seen_box.append(seen)
            me = Worker("P", None, problems)
            workers = []
            A = start_action(action_type="main:A", who="A")
            with A.context():
                me.stack.append(A)
                tasks = []
                for i, bi in enumerate(harness):
                    w = Worker("C%d" % i, A, problems)
                    workers.append(w)
                    tasks.append(asyncio.create_task(w.run_async(BODIES[bi], run.pause)))
                log_message("w:msg", who=me.label())
                me.stack.pop()
            me.check("after-context-block")
            await run.pause("P")
            await asyncio.gather(*tasks)
            me.check("after-gather")
            A.log("w:msg", who=me.label())
            A.finish()
            return workers

        async def main(run):
            if explicit:
                return await main_explicit(run)
            world.fresh()
            seen = world.capture()
            seen_box.append(seen)
            me = Worker("P", None, problems)
            workers = []
            with start_action(action_type="main:A", who="A") as A:
                me.stack.append(A)
                tasks = []
                for i, bi in enumerate(harness):
                    w = Worker("C%d" % i, A, problems)
                    workers.append(w)
                    tasks.append(asyncio.create_task(w.run_async(BODIES[bi], run.pause)))
                    me.check("after-create_task")
                await run.pause("P")
                me.check("after-await")
                log_message("w:msg", who=me.label())
                await run.pause("P")
                me.check("after-await")
                await asyncio.gather(*tasks)
                me.check("after-gather")
                log_message("w:msg", who=me.label())
                me.stack.pop()
            me.check("after-exit-A")
            return workers

        return main

    viol = []
    execs = states = transitions = 0
    orders = set()
    forests = set()

    problems = []
    seen_box = []

    def main(run):
        del problems[:]
        del seen_box[:]
        return main_factory(problems, seen_box)(run)

    def go():
        nonlocal execs, states, transitions
        for r, workers in aio.explore(main):
            execs += 1
            transitions += len(r.choices)
            states += 1 + len(r.choices)
            msgs = list(seen_box[0])
            sched = [c[1] for c in r.choices]
            for sig, d in problems[:2]:
                viol.append((sig, dict(d, schedule=sched, trace=r.trace)))
            orders.add(tuple(m.get("who") or m.get("action_type") for m in msgs))
            try:
                forest, ninc = canon_forest(msgs, sort_children_of="A")
            except Exception as e:
                viol.append(("parser-raised", {"error": repr(e)[:200], "schedule": sched}))
                continue
            forests.add(json.dumps(forest))
            if ninc:
                viol.append(("incomplete-task", {"schedule": sched}))
            # reference: all children work attaches directly under A; start_task work is its own tree
            a_children = [["m", "P.1"], ["m", "P.2"]]
            top = []
            for w in workers:
                a_children.extend(ref_nodes(w.forest))
                top.extend(ref_nodes(w.tasks))
            a_children.sort(key=lambda x: json.dumps(x))
            top.append(["a", "main:A", "A", "succeeded", a_children])
            top.sort(key=lambda x: json.dumps(x))
            if forest != top:
                viol.append(("forest-differs-from-reference", {"schedule": sched, "got": forest, "want": top}))
            for sig, d in structinv.check_stream(msgs, order=True):
                viol.append(("C02:" + sig, dict(d, schedule=sched)))
            if len(viol) >= 4:
                break

    contextvars.Context().run(go)
    if len(forests) > 1 and not viol:
        viol.append(("schedule-dependent-forest", {"distinct": len(forests)}))
    return execs, states, transitions, len(orders), len(forests), viol


def run_case(case):
    kind, harness = case
    try:
        if kind == "thr":
            execs, states, transitions, norders, nforests, viol = run_threads(harness)
        elif kind == "proj":
            from vkit import proj

            execs, states, transitions, norders, viol = proj.run(harness)
            nforests = 1
        else:
            execs, states, transitions, norders, nforests, viol = run_aio(harness)
    finally:
        world.fresh()
    return Result(
        outcome=[execs, norders, nforests],
        nontrivial=norders > 1,
        states=states,
        transitions=transitions,
        executions=execs,
        violations=viol[:4],
        extra={
            "%s_schedules" % kind: execs,
            "%s_distinct_emission_orders" % kind: norders,
            "harnesses_with_single_canonical_forest": 1 if nforests == 1 else 0,
        },
    )


def sanity(summary, tier):
    x = summary["extra"]
    probs = []
    if x.get("thr_distinct_emission_orders", 0) < 100 or x.get("aio_distinct_emission_orders", 0) < 100:
        probs.append("too few distinct emission orders: the workers were not interleaved")
    if x.get("harnesses_with_single_canonical_forest", 0) != summary["evaluations"]:
        probs.append("a harness produced no or several canonical forests")
    return probs
