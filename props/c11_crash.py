"""
C11 - a crash loses no acknowledged message and leaves a parseable log.

Engine CRASH.  Mode A: the program runs against a real FileDestination over an
in-memory device that logs write(bytes)/flush() and the acknowledgement points
(every instant at which all logging calls made so far have returned).  For
EVERY prefix of that event log and EVERY survivable prefix of the bytes not yet
flushed, the surviving file image is recovered and checked.  Mode B: for every
I/O boundary of the same programs a forked child runs the program on a real
buffered disk file and SIGKILLs itself at that boundary (before write i, after
write i, after flush i, after the acknowledgement), acknowledging on a pipe.
"""

import os
import re
import json
import signal
import tempfile

from vkit import progs, world
from vkit.runner import Result
from vkit.world import eliot

from eliot import FileDestination
from eliot.parse import Parser

ID = "C11"
LEVEL = "fault_enumeration"
RULE = (
    "programs = forests <= 3 nodes x <= 1 deviation over {message api, 10 kB field, action style, "
    "failing exit} + a wide action handing work over at position 11; mode A crash points = every prefix of the device event log (writes, flushes, "
    "acknowledgements; for every third program also with a destination that logs re-entrantly and acknowledges as soon as its nested logging call has returned) x every prefix length of the unflushed bytes (all lengths for lines < 600 bytes, "
    "boundaries and every 512th byte otherwise); mode B = real SIGKILL of a forked child at every "
    "before-write / after-write / after-flush / after-ack boundary on real disk files of 7 kinds (binary buffered/unbuffered/256 kB buffer, text buffered / write-through / line-buffered / 256 kB buffer), incl. lines larger than the default buffer; "
    "non-trivial = crash point that truncates the log (not the final one)"
)
ASSUMPTIONS = [
    "the file image and the acknowledgements change only inside write(), flush() and the ack, so a kill at any instant is equivalent to one of the enumerated points; a kill inside the OS write is covered by the torn-prefix model",
    "fsync / power-loss durability is not claimed by the property and not modelled",
    "deterministic clock/uuid seams make the crash-free run the reference for byte-exact comparison",
]

BIG = "y" * 9990 + "\u00e9\u00fc\u00b0 \U0001f600 \u4e2d"  # ~10 kB, with characters from several Unicode ranges
SCHEMA = {"m": [("api", 3), ("fs", 2)], "a": [("style", 3), ("exit", 2), ("sf", 2), ("at", 2)]}
# at: 1 -> the empty action type (start_action() without a type)


def BOUNDS(tier):
    return {"max_nodes": 3, "devs": 1 if tier == "quick" else 2, "real_programs": 10 if tier == "quick" else 40}


def _programs(tier):
    b = BOUNDS(tier)
    out = []
    for p in progs.programs(b["max_nodes"], b["devs"], SCHEMA):
        for x in progs.walk(p):
            if x[0] == "a" and x[1].get("at"):
                x[1]["at"] = 2
        out.append(p)
    # a wide action (positions beyond 9) that hands work to "another process" (serialize_task_id /
    # continue_task) at a multi-digit position, immediately and deferred
    for style in (6, 7):
        out.append([["a", {}, [["m", {}] for _ in range(9)] + [["a", {"style": style}, [["m", {}]]], ["m", {}]]]])
    return out


def run_concurrent_slow_destination():
    """Another thread is parked inside a slow second destination while this thread logs and
    acknowledges: what was acknowledged must already be in the file (a kill at that instant must not
    lose it)."""
    import threading

    events = []
    viol = []

    def go():
        parked = threading.Event()
        release = threading.Event()

        def slow(m):
            if m.get("who") == "worker":
                parked.set()
                release.wait(10)

        eliot.add_destinations(FileDestination(file=Device(events)), slow)
        t = threading.Thread(target=lambda: eliot.log_message("w", who="worker"))
        t.start()
        if not parked.wait(10):
            release.set()
            t.join()
            return None
        done = []

        def main_logs():
            with eliot.start_action(action_type="main"):
                eliot.log_message("m", who="main", n=1)
                done.append(len([e for e in events if e[0] == "flush"]))
                eliot.log_message("m", who="main", n=2)
                done.append(len([e for e in events if e[0] == "flush"]))

        m = threading.Thread(target=main_logs)
        m.start()
        m.join(5)
        blocked = m.is_alive()
        snapshot = list(events)
        acked = list(done)
        release.set()
        t.join()
        m.join()
        return blocked, snapshot, acked

    r = world.run_isolated(go)
    if r is None:
        return [("harness:worker-never-reached-slow-destination", {})]
    blocked, snapshot, acked = r
    if blocked:
        return []  # logging waits for the other thread: slower, but nothing acknowledged is missing
    # at the instant of the (virtual) kill: durable = everything written and flushed
    durable = b""
    unflushed = b""
    for e in snapshot:
        if e[0] == "write":
            unflushed += e[1]
        else:
            durable += unflushed
            unflushed = b""
    lines = [json.loads(l) for l in durable.split(b"\n") if l]
    mine = [d for d in lines if d.get("who") == "main"]
    if len(mine) != 2:
        viol.append(("acknowledged-message-lost:other-thread-inside-slow-destination",
                     {"acknowledged": 2, "in_file": len(mine), "file_lines": len(lines)}))
    return viol


def run_concurrent_slow_flush():
    """Another thread is inside a slow flush() of the very same file while this thread logs and
    acknowledges: what was acknowledged must be flushed too (a kill at that instant must not lose it)."""
    import threading

    events = []
    viol = []

    def go():
        parked = threading.Event()
        release = threading.Event()

        class SlowFlush(Device):
            def flush(self):
                last = [e for e in self.events if e[0] == "write"][-1][1]
                if b'"worker"' in last and not parked.is_set():
                    parked.set()
                    release.wait(10)
                Device.flush(self)

        eliot.add_destinations(FileDestination(file=SlowFlush(events)))
        t = threading.Thread(target=lambda: eliot.log_message("w", who="worker"))
        t.start()
        if not parked.wait(10):
            release.set()
            t.join()
            return None
        acked = []

        def main_logs():
            eliot.log_message("m", who="main", n=1)
            acked.append(1)
            eliot.log_message("m", who="main", n=2)
            acked.append(2)

        m = threading.Thread(target=main_logs)
        m.start()
        m.join(3)
        blocked = m.is_alive()
        snapshot = list(events)
        n_acked = len(acked)
        release.set()
        t.join()
        m.join()
        return blocked, snapshot, n_acked

    r = world.run_isolated(go)
    if r is None:
        return [("harness:worker-never-reached-slow-flush", {})]
    blocked, snapshot, n_acked = r
    durable = b""
    unflushed = b""
    for e in snapshot:
        if e[0] == "write":
            unflushed += e[1]
        else:
            durable += unflushed
            unflushed = b""
    mine = [l for l in durable.split(b"\n") if b'"main"' in l]
    if len(mine) < n_acked:
        viol.append(("acknowledged-message-lost:other-thread-inside-slow-flush",
                     {"acknowledged": n_acked, "flushed": len(mine), "main_thread_blocked": blocked}))
    return viol


def units(tier):
    ps = _programs(tier)
    out = [["mem", i, min(i + 20, len(ps))] for i in range(0, len(ps), 20)]
    step = max(1, len(ps) // BOUNDS(tier)["real_programs"])
    for j, i in enumerate(range(0, len(ps), step)):
        out.append(["real", i, FILE_KINDS[j % len(FILE_KINDS)]])
    for fk in FILE_KINDS:
        out.append(["real", 3 % len(ps), fk])
    # a program whose lines exceed the default buffer size (10 kB field), on every file kind
    big = next((i for i, p in enumerate(ps) if any(x[1].get("fs") == 1 or x[1].get("sf") == 1 for x in progs.walk(p)) and len(progs.walk(p)) >= 2), 0)
    for fk in FILE_KINDS:
        out.append(["real", big, fk])
    out.append(["concurrent"])
    out.append(["concurrent-flush"])
    return out


def cases(unit, tier):
    ps = _programs(tier)
    if unit[0] == "concurrent-flush":
        yield ["concurrent-flush"]
    elif unit[0] == "concurrent":
        yield ["concurrent"]
    elif unit[0] == "mem":
        for i in range(unit[1], unit[2]):
            yield ["mem", ps[i]]
            if i % 3 == 0:
                # the same program while a destination registered before the file logs re-entrantly
                yield ["mem", ps[i], "audit"]
    else:
        yield ["real", ps[unit[1]], unit[2]]


FILE_KINDS = ["binary-buffered", "binary-unbuffered", "text-buffered", "text-write-through", "text-line-buffered",
              "binary-256k-buffer", "text-256k-buffer"]


def open_kind(path, kind):
    """The kinds of real file objects an application may hand to to_file()."""
    import io

    if kind == "binary-buffered":
        return open(path, "ab")
    if kind == "binary-unbuffered":
        return open(path, "ab", buffering=0)
    if kind == "text-buffered":
        return open(path, "a", encoding="utf-8", newline="")
    if kind == "binary-256k-buffer":
        return open(path, "ab", buffering=1 << 18)
    if kind == "text-256k-buffer":
        return open(path, "a", buffering=1 << 18, encoding="utf-8", newline="")
    if kind == "text-write-through":
        return io.TextIOWrapper(open(path, "ab"), encoding="utf-8", newline="", write_through=True)
    if kind == "text-line-buffered":
        return io.TextIOWrapper(open(path, "ab"), encoding="utf-8", newline="", line_buffering=True)
    raise ValueError(kind)


class Device(object):
    """In-memory file: logs writes and flushes."""

    def __init__(self, events):
        self.events = events

    def write(self, data):
        if not isinstance(data, bytes):
            raise TypeError("bytes")
        if data:  # the constructor's mode probe write(b"") changes nothing
            self.events.append(("write", data))

    def flush(self):
        self.events.append(("flush",))


def _patch_big(prog):
    """Field set index 1 becomes a 10 kB value for this check."""
    return prog


EMITTED = [0]  # messages offered to the destinations so far (tap registered before the file)


def run_program(prog, file_factory, on_ack, on_nested_ack=None):
    """Run prog with to_file(file); on_ack() is called at every acknowledgement point.
    With on_nested_ack, a destination registered before the file logs an audit message of its own for
    every application message (re-entrant logging) and calls on_nested_ack(id) as soon as that nested
    logging call has returned."""

    def go():
        f = file_factory()
        EMITTED[0] = 0

        def tap(m):
            EMITTED[0] += 1

        eliot.add_destinations(tap)
        if on_nested_ack is not None:
            n_audit = [0]

            def auditor(m):
                if m.get("message_type", "").startswith(("audit", "eliot:")):
                    return
                n_audit[0] += 1
                k = n_audit[0]
                eliot.log_message("audit", audit_id=k)
                on_nested_ack(k)

            eliot.add_destinations(auditor)
        eliot.add_destinations(FileDestination(file=f))
        saved = progs.FIELDSETS[1]
        progs.FIELDSETS[1] = {"x": BIG}
        progs.ALL_FS[1] = progs.FIELDSETS[1]
        try:
            def probe(it, when, stmt):
                on_ack()

            it = progs.Interp(prog, probe)
            # acknowledge before each statement too: wrap exec_stmt
            orig = it.exec_stmt

            def exec_stmt(s):
                on_ack()
                orig(s)

            it.exec_stmt = exec_stmt
            it.run()
            on_ack()
        finally:
            progs.FIELDSETS[1] = saved
            progs.ALL_FS[1] = saved
        return f

    return world.run_isolated(go)


_UUID = re.compile(rb"[0-9a-f]{8}-[0-9a-f]{4}-[0-9a-f]{4}-[0-9a-f]{4}-[0-9a-f]{12}")
_UUID_KEY = b'"task_uuid":"'


def canon_ids(chunks):
    """Rename task ids by first occurrence: the crash-free reference and the crashed run are two runs,
    and which unique ids a run draws is not part of the property."""
    seen = {}
    return [_UUID.sub(lambda m: b"<id-%d>" % seen.setdefault(m.group(0), len(seen)), c) for c in chunks]


def check_image(image, ref_lines, acked, ctx, required_ids=()):
    """image: surviving bytes; ref_lines: crash-free lines (bytes, with newline)."""
    viol = []
    parts = image.split(b"\n")
    frag = parts[-1]
    lines = [p + b"\n" for p in parts[:-1]]
    # a fragment torn inside a task id is compared up to the id
    k = frag.rfind(_UUID_KEY)
    if k >= 0 and b'"' not in frag[k + len(_UUID_KEY):]:
        frag = frag[: k + len(_UUID_KEY)]
    real_lines = lines
    canon = canon_ids(lines + [frag])
    lines, frag = canon[:-1], canon[-1]
    ref_lines = canon_ids(ref_lines)
    if lines != ref_lines[: len(lines)]:
        viol.append(("complete-lines-not-a-prefix-of-the-emission-sequence", dict(ctx, n=len(lines))))
        return viol
    if len(lines) < acked:
        viol.append(("acknowledged-message-lost", dict(ctx, complete_lines=len(lines), acknowledged=acked)))
    if required_ids:
        have_ids = set()
        for l in lines:
            if b'"audit_id"' in l:
                have_ids.add(json.loads(l).get("audit_id"))
        missing = sorted(set(required_ids) - have_ids)
        if missing:
            viol.append(("acknowledged-message-lost:reentrant-logging-call-returned", dict(ctx, missing_audit_ids=missing[:3])))
    if frag:
        nxt = ref_lines[len(lines)] if len(lines) < len(ref_lines) else b""
        if not nxt.startswith(frag):
            viol.append(("trailing-fragment-is-not-a-prefix-of-the-next-line", dict(ctx)))
    canon_lines = lines
    lines = real_lines
    try:
        dicts = [json.loads(l) for l in lines]
        cmap = {d["task_uuid"]: json.loads(c)["task_uuid"] for d, c in zip(dicts, canon_lines)}
        tasks = list(Parser.parse_stream(dicts))
    except Exception as e:
        viol.append(("parsing-truncated-log-failed", dict(ctx, error=repr(e)[:200])))
        return viol
    # completeness exactly when all lines of the task survived
    total = {}
    for l in ref_lines:
        u = json.loads(l)["task_uuid"]
        total[u] = total.get(u, 0) + 1
    have = {}
    for d in dicts:
        have[cmap[d["task_uuid"]]] = have.get(cmap[d["task_uuid"]], 0) + 1
    if sorted(cmap.get(t.root().task_uuid, "?") for t in tasks) != sorted(have):
        viol.append(("tasks-missing-or-duplicated", dict(ctx)))
    for t in tasks:
        u = cmap.get(t.root().task_uuid, "?")
        if u in have and t.is_complete() != (have[u] == total.get(u)):
            viol.append(("completeness-misreported", dict(ctx, says=t.is_complete(), have=have[u], total=total[u])))
    # every started action appears, unfinished ones as started
    started = set()
    ended = set()
    for d in dicts:
        if d.get("action_status") == "started":
            started.add((d["task_uuid"], tuple(d["task_level"][:-1])))
        elif d.get("action_status") in ("succeeded", "failed"):
            ended.add((d["task_uuid"], tuple(d["task_level"][:-1])))
    seen_actions = {}

    def walk(node):
        from eliot._action import WrittenAction

        if isinstance(node, WrittenAction):
            seen_actions[(node.task_uuid, tuple(node.task_level.as_list()))] = node.status
            for c in node.children:
                walk(c)

    for t in tasks:
        walk(t.root())
    for k in started:
        st = seen_actions.get(k)
        if st is None:
            viol.append(("started-action-missing-from-parse", dict(ctx, action=list(k[1]))))
        elif k not in ended and st != "started":
            viol.append(("unfinished-action-not-reported-as-started", dict(ctx, status=st)))
    msgs_in_tree = sum(1 for _ in _messages(tasks))
    if msgs_in_tree != len(dicts):
        viol.append(("parsed-message-count", dict(ctx, tree=msgs_in_tree, lines=len(dicts))))
    return viol


def _messages(tasks):
    from vkit import lat

    for t in tasks:
        out = []
        lat.tree_messages(t.root(), out)
        for x in out:
            yield x


def run_mem(prog, audit=False):
    events = []
    acks = [0]

    def on_ack():
        events.append(("ack", EMITTED[0]))

    run_program(prog, lambda: Device(events), on_ack, (lambda k: events.append(("ack-id", k))) if audit else None)
    writes = [e[1] for e in events if e[0] == "write"]
    ref_lines = []
    buf = b"".join(writes)
    for p in buf.split(b"\n")[:-1]:
        ref_lines.append(p + b"\n")
    viol = []
    points = 0
    nontrivial = 0
    if buf and not buf.endswith(b"\n"):
        viol.append(("crash-free-log-does-not-end-with-newline", {}))
    durable = b""
    unflushed = b""
    acked = 0
    required = set()
    for i in range(len(events) + 1):
        # crash after events[:i]
        lengths = range(len(unflushed) + 1) if len(unflushed) < 600 else sorted(
            set([0, 1, len(unflushed) - 1, len(unflushed)] + list(range(0, len(unflushed), 512)))
        )
        for k in lengths:
            points += 1
            image = durable + unflushed[:k]
            if len(image) < len(buf):
                nontrivial += 1
            for sig, d in check_image(image, ref_lines, acked, {"event_prefix": i, "unflushed_bytes_surviving": k, "of": len(unflushed)}, required):
                viol.append((sig, d))
            if len(viol) > 3:
                break
        if len(viol) > 3 or i == len(events):
            break
        e = events[i]
        if e[0] == "write":
            unflushed += e[1]
        elif e[0] == "flush":
            durable += unflushed
            unflushed = b""
        elif e[0] == "ack-id":
            required.add(e[1])
        else:
            acked = e[1]
    # the number of acked messages must reach all messages at the end
    return points, nontrivial, len(ref_lines), viol


class KillingFile(object):
    """Wraps a real buffered file; SIGKILLs the process at a chosen boundary."""

    def __init__(self, real, point, ack_fd):
        self.real = real
        self.point = point  # (kind, index)
        self.nw = 0
        self.nf = 0
        self.ack_fd = ack_fd
        self.nack = 0

    def __getattr__(self, name):
        # transparent for everything else (line_buffering, write_through, mode, ...)
        return getattr(self.real, name)

    def _maybe(self, kind, idx):
        if self.point == (kind, idx):
            os.kill(os.getpid(), signal.SIGKILL)

    def write(self, data):
        # bytes/str mode is the real file's: a text file raises TypeError for the b"" probe
        if not data:
            return self.real.write(data)
        self._maybe("before-write", self.nw)
        r = self.real.write(data)
        self._maybe("after-write", self.nw)
        self.nw += 1
        return r

    def flush(self):
        r = self.real.flush()
        self._maybe("after-flush", self.nf)
        self.nf += 1
        return r

    def ack(self):
        os.write(self.ack_fd, b"%d\n" % EMITTED[0])
        self._maybe("after-ack", self.nack)
        self.nack += 1


def run_real(prog, kind="binary-buffered"):
    # crash-free reference in this process (in memory)
    events = []
    run_program(prog, lambda: Device(events), lambda: events.append(("ack",)))
    writes = [e[1] for e in events if e[0] == "write"]
    nacks = sum(1 for e in events if e[0] == "ack")
    buf = b"".join(writes)
    ref_lines = [p + b"\n" for p in buf.split(b"\n")[:-1]]
    points = []
    for i in range(len(writes)):
        points += [("before-write", i), ("after-write", i), ("after-flush", i)]
    for i in range(nacks):
        points.append(("after-ack", i))
    points.append(("never", 0))
    viol = []
    tmp = tempfile.mkdtemp(prefix="vk_c11_", dir="/var/tmp")
    nontrivial = 0
    try:
        for pt in points:
            path = os.path.join(tmp, "log")
            if os.path.exists(path):
                os.unlink(path)
            r, w = os.pipe()
            pid = os.fork()
            if pid == 0:
                try:
                    os.close(r)
                    holder = {}

                    def factory():
                        holder["f"] = KillingFile(open_kind(path, kind), pt, w)
                        return holder["f"]

                    run_program(prog, factory, lambda: holder["f"].ack())
                    holder["f"].real.close()
                finally:
                    os._exit(0)
            os.close(w)
            data = b""
            while True:
                chunk = os.read(r, 65536)
                if not chunk:
                    break
                data += chunk
            os.close(r)
            _, status = os.waitpid(pid, 0)
            killed = os.WIFSIGNALED(status) and os.WTERMSIG(status) == signal.SIGKILL
            if pt[0] not in ("never", "after-flush") and not killed:
                # (a missing flush() call is judged by the durability oracle below, not here)
                viol.append(("harness:child-not-killed", {"point": list(pt), "status": status}))
            acked = max([int(x) for x in data.split()] or [0])
            image = open(path, "rb").read() if os.path.exists(path) else b""
            if len(image) < len(buf):
                nontrivial += 1
            for sig, d in check_image(image, ref_lines, acked, {"kill_point": list(pt), "mode": "real-SIGKILL", "file": kind}):
                viol.append((sig, d))
            if pt[0] == "never" and canon_ids([image]) != canon_ids([buf]):
                viol.append(("crash-free-disk-file-differs", {}))
            if len(viol) > 3:
                break
    finally:
        for fn in os.listdir(tmp):
            os.unlink(os.path.join(tmp, fn))
        os.rmdir(tmp)
    return len(points), nontrivial, len(ref_lines), viol


def run_case(case):
    if case[0] == "concurrent-flush":
        v = run_concurrent_slow_flush()
        world.fresh()
        return Result(outcome=["concurrent-flush", len(v)], violations=v)
    if case[0] == "concurrent":
        v = run_concurrent_slow_destination()
        world.fresh()
        return Result(outcome=["concurrent", len(v)], violations=v)
    if case[0] == "mem":
        points, nontrivial, nlines, viol = run_mem(case[1], audit=len(case) > 2)
        key = "crash_points_in_memory"
    else:
        points, nontrivial, nlines, viol = run_real(case[1], case[2] if len(case) > 2 else "binary-buffered")
        key = "crash_points_real_sigkill"
    world.fresh()
    return Result(
        outcome=[case[0], points, nlines],
        nontrivial=nontrivial > 0,
        executions=points,
        violations=viol[:4],
        extra={key: points, "truncating_crash_points": nontrivial},
    )
