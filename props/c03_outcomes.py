"""
C03 - each action logs exactly one start and one truthful end; errors pass through.

Engine SEQ: full product of body exits x exception classes (incl. BaseException
subclasses, a class whose str() raises, a 3-level hierarchy) x extractor
registrations along the MRO (every subset of {A, B, C, Exception}, each
extractor returning distinct fields or raising) x scoping style x repeated
finish calls x field sets, for a chain of 1-3 nested actions with every catch
depth.  Reference: plain-Python outcome record; identity of the propagated
exception object.
"""

import asyncio
import itertools

from vkit import world
from vkit.runner import Result
from vkit.world import eliot

from eliot import start_action, register_exception_extractor, current_action, log_call

ID = "C03"
CASE_TIMEOUT = 300  # a logging call that does not return within 5 min is reported as a hang (generous: a loaded machine must not produce one)


def CASE_TIMEOUT_FOR(case):
    """Concurrent cases are whole schedule explorations (seconds under load); a sequential case takes
    well under a millisecond, so 45 s is ample."""
    return 300 if case and case[0] == "conc" else 45
LEVEL = "exploration"
SHARDS = 4
RULE = (
    "case = (nesting depth 1-3, catch depth, raise class or normal exit (incl. a falsy exception object and one whose bool() raises), extractor registration = "
    "assignment of {none, returns fields, raises, returns fields named like the action's own exception/reason} to each of {A, B, C, Exception}, style in {log_call, with, with + explicit finish inside the block, "
    "context()+finish, finish without context}, extra finish calls in {0, 1, 2 (one with an exception "
    "argument)}, start fields on/off, success fields on/off, optionally while an unrelated exception is being "
    "handled (inside except / finally)); full product for depth 1, registrations restricted to 9 "
    "representatives for depth 2-3; plus all histories of <= 4 events over {fail A/B/C, register "
    "extractor for A/B/C (returning/raising), succeed} with registrations arriving after failures; plus 2-3 threads "
    "failing actions concurrently (extractor raising / returning fields / OSError) against every other logging "
    "operation, ALL interleavings with scheduling points inside the logging calls, each thread's log compared "
    "with the sequential schedule; non-trivial = case that raises"
)
ASSUMPTIONS = [
    "exception classes and extractor behaviours from a fixed alphabet",
    "a raising extractor may be reported with an eliot:traceback message: at most one per raising extractor call is accepted, none is accepted too; its placement is not constrained",
]


class A(Exception):
    pass


class B(A):
    pass


class C(B):
    pass


class StrRaises(Exception):
    def __str__(self):
        raise RuntimeError("nope")


class Falsy(Exception):
    """An exception object that is falsy (len() == 0), like an empty ExceptionGroup-ish container."""

    def __len__(self):
        return 0


class BoolRaises(Exception):
    def __bool__(self):
        raise RuntimeError("no truth value")


# a class whose __module__ is not a string (generated stubs, classes with the attribute cleared)
ModuleLess = type("ModuleLess", (Exception,), {"__module__": None})

RAISES = [
    None,
    lambda: ValueError("boom"),
    lambda: KeyError("k"),
    lambda: OSError(5, "io"),
    lambda: KeyboardInterrupt("ki"),
    lambda: SystemExit(3),
    lambda: GeneratorExit(),
    lambda: asyncio.CancelledError("c"),
    lambda: StrRaises(),
    lambda: A("a"),
    lambda: B("b"),
    lambda: C("c"),
    lambda: Falsy("falsy"),
    lambda: BoolRaises("boolraises"),
    lambda: ModuleLess("moduleless"),
]
REG_CLASSES = [A, B, C, Exception]


class ExtractorBoom(Exception):
    pass


def make_extractor(cls, mode):
    if mode == 1:
        return lambda e: {"from_" + cls.__name__: cls.__name__}
    if mode == 3:
        # like `lambda e: dict(vars(e))` on an exception carrying .reason / .exception attributes:
        # the action's own class name and text must still be what is recorded
        return lambda e: {"from_" + cls.__name__: cls.__name__, "reason": "shadow", "exception": "shadow"}

    def bad(e):
        raise ExtractorBoom(cls.__name__)

    return bad


ALL_REGS = list(itertools.product((0, 1, 2), repeat=4)) + [
    (3, 0, 0, 0), (0, 3, 0, 0), (0, 0, 3, 0), (0, 0, 0, 3), (1, 3, 0, 0), (3, 2, 0, 0), (0, 0, 2, 3),
]
SMALL_REGS = [
    (0, 0, 0, 0),
    (1, 0, 0, 0),
    (0, 1, 0, 0),
    (0, 0, 1, 0),
    (0, 0, 0, 1),
    (2, 0, 1, 0),
    (1, 2, 0, 0),
    (0, 0, 2, 1),
    (0, 0, 0, 2),
    (0, 3, 0, 0),
    (0, 0, 0, 3),
]


def BOUNDS(tier):
    return {"depth1": "full product", "depth2_3_registrations": len(SMALL_REGS), "max_depth": 3}


def units(tier):
    out = []
    for ri in range(len(RAISES)):
        out.append([1, ri])
        out.append([2, ri])
        out.append([3, ri])
    out.append(["history"])
    out += [["conc", i] for i in range(len(conc_harnesses()))]
    return out


def conc_harnesses():
    """Two threads failing actions at the same time, interleaved inside the logging calls
    (vkit/proj.py): what one thread's action records must not depend on what another thread's
    logging call is doing at that moment."""
    from vkit import proj

    return proj.harnesses(["badx", "errno", "custom"], pairs_with=proj.OPS,
                          two_op=[(("badx", "custom"), ("custom", "badx")), (("badx",), ("errno",), ("m",))])


HIST_CLASSES = [A, B, C]


def history_events():
    ev = [["fail", i] for i in range(3)]
    ev += [["reg", i, m] for i in range(3) for m in (1, 2)]
    ev += [["ok"]]
    return ev


def cases(unit, tier):
    if unit[0] == "conc":
        yield ["conc", conc_harnesses()[unit[1]]]
        return
    if unit == ["history"]:
        import itertools as it

        evs = history_events()
        for n in (1, 2, 3, 4) if tier == "quick" else (1, 2, 3, 4, 5):
            for seq in it.product(range(len(evs)), repeat=n):
                if any(evs[i][0] == "fail" for i in seq):
                    yield ["history", [evs[i] for i in seq]]
        return
    depth, ri = unit
    regs = ALL_REGS if depth == 1 else SMALL_REGS
    if ri == 0:
        regs = [(0, 0, 0, 0), (1, 1, 1, 1)]
    for reg in regs:
        for style in (0, 1, 2, 3, 4):
            for xf in (0, 1, 2):
                for sf in (0, 1):
                    for ef in (0, 1):
                        for up in range(depth) if ri else (0,):
                            if depth > 1 and (xf == 2 or (sf and ef)) and reg not in SMALL_REGS[:3]:
                                continue
                            yield [depth, ri, list(reg), style, xf, sf, ef, up]
                            if depth > 1 and ri and reg in SMALL_REGS[:6] and xf == 0 and sf == 0 and ef == 0:
                                # an intermediate handler changes the exception's text/attributes and re-raises
                                yield [depth, ri, list(reg), style, xf, sf, ef, up, 3]
                            if reg in SMALL_REGS[:2] and xf == 0 and sf == 1:
                                # the same through a typed action (ActionType with declared success fields)
                                if style != 3:
                                    yield [depth, ri, list(reg), style, xf, sf, ef, up, 4]
                            # the same while another exception is being handled (except / finally)
                            if reg in SMALL_REGS[:2] and xf == 0 and sf == 0:
                                yield [depth, ri, list(reg), style, xf, sf, ef, up, 1]
                                yield [depth, ri, list(reg), style, xf, sf, ef, up, 2]


def expected_extractor(exc, reg):
    """(fields, raises?) of the extractor for the nearest registered class in the MRO."""
    table = {}
    for cls, mode in zip(REG_CLASSES, reg):
        if mode:
            table[cls] = mode
    for klass in type(exc).__mro__:
        if klass in table:
            if table[klass] in (1, 3):
                return {"from_" + klass.__name__: klass.__name__}, False
            return {}, True
        if klass is OSError:  # eliot's built-in registration for EnvironmentError
            return {"errno": exc.errno}, False
    return {}, False


def _text(e):
    try:
        return str(e)
    except Exception:
        return None


from eliot import ActionType, Field

TYPED = [
    ActionType("t%d" % i, [Field.for_types("sfield", [int], "")], [Field.for_types("efield", [int], "")], "")
    for i in range(3)
]


class Ambient(Exception):
    """An unrelated exception that is being handled while the actions under test run."""


def run_history(events):
    """Failures interleaved with (re-)registrations of extractors: each failed action must carry the
    fields of the extractor registered for the nearest class *at that time*."""
    viol = []

    def go():
        seen = world.capture()
        table = {}
        expected = []
        for ev in events:
            if ev[0] == "reg":
                cls = HIST_CLASSES[ev[1]]
                table[cls] = ev[2]
                register_exception_extractor(cls, make_extractor(cls, ev[2]))
            elif ev[0] == "ok":
                with start_action(action_type="h"):
                    pass
                expected.append(("succeeded", None, False))
            else:
                cls = HIST_CLASSES[ev[1]]
                e = cls("x")
                try:
                    with start_action(action_type="h"):
                        raise e
                except cls as got:
                    if got is not e:
                        viol.append(("exception-identity", {"events": events}))
                fields, raises = {}, False
                for k in cls.__mro__:
                    if k in table:
                        if table[k] == 1:
                            fields = {"from_" + k.__name__: k.__name__}
                        else:
                            raises = True
                        break
                expected.append(("failed", dict(fields, exception="%s.%s" % (cls.__module__, cls.__name__), reason="x"), raises))
        return list(seen), expected

    msgs, expected = world.run_isolated(go)
    ends = [m for m in msgs if m.get("action_status") in ("succeeded", "failed")]
    meta = ("action_type", "action_status", "task_uuid", "task_level", "timestamp")
    if len(ends) != len(expected):
        viol.append(("end-count", {"events": events, "got": len(ends)}))
    else:
        for m, (st, fields, _) in zip(ends, expected):
            got = {k: v for k, v in m.items() if k not in meta}
            if m["action_status"] != st or (fields is not None and got != fields):
                viol.append(("failed-end-fields:after-later-registration", {"events": events, "got": got, "want": fields}))
                break
    ntb = sum(1 for m in msgs if m.get("message_type") == "eliot:traceback")
    if ntb > sum(1 for e in expected if e[2]):
        viol.append(("more-tracebacks-than-raising-extractors", {"events": events, "got": ntb}))
    return Result(outcome=[[m.get("action_status"), sorted(k for k in m if k.startswith("from_"))] for m in ends],
                  nontrivial=len(events) > 1, violations=viol[:3])


def run_case(case):
    if case[0] == "history":
        return run_history(case[1])
    if case[0] == "conc":
        from vkit import proj

        try:
            execs, states, transitions, norders, viol = proj.run(case[1])
        finally:
            world.fresh()
        return Result(outcome=["conc", execs, norders], nontrivial=norders > 1, states=states, transitions=transitions,
                      executions=execs, violations=[("conc:" + s_, d) for s_, d in viol[:3]])
    ambient = case[8] if len(case) > 8 else 0
    depth, ri, reg, style, xf, sf, ef, up = case[:8]
    viol = []

    def bad(sig, **d):
        viol.append((sig, d))

    texts = {}
    errnos = {}

    def go():
        seen = world.capture()
        for cls, mode in zip(REG_CLASSES, reg):
            if mode:
                register_exception_extractor(cls, make_extractor(cls, mode))
        raised = [None]
        actions = []
        before = current_action()

        def level(i):
            """Run action i (0 = outermost); the innermost raises."""
            start_fields = {"sfield": i} if sf else {}
            if style == 3:
                a = None  # created by log_call when the decorated function is called
            elif ambient == 4:
                a = TYPED[i](**start_fields)
            else:
                a = start_action(action_type="t%d" % i, **start_fields)
            if a is not None:
                actions.append(a)

            def body():
                if ef or ambient == 4:
                    a.add_success_fields(efield=i)
                if i + 1 < depth:
                    if ambient == 3:
                        try:
                            guarded(i + 1)
                        except BaseException as e:
                            # change what the exception says before the next action reports it
                            e.args = ("changed at level %d" % i,)
                            e.errno_like = i
                            if isinstance(e, OSError):
                                # ... and what its (built-in) extractor reads
                                e.errno = 100 + i
                                errnos[i] = e.errno
                            texts[i] = _text(e)
                            raise
                    else:
                        guarded(i + 1)
                elif RAISES[ri] is not None:
                    e = RAISES[ri]()
                    raised[0] = e
                    raise e

            if style == 3:
                def inner():
                    nonlocal a
                    a = current_action()
                    actions.append(a)
                    body()

                if sf:
                    @log_call(action_type="t%d" % i, include_result=False)
                    def fn(sfield):
                        inner()
                else:
                    @log_call(action_type="t%d" % i, include_result=False)
                    def fn():
                        inner()

                fn(**start_fields)
            elif style == 4:
                # the application finishes the action itself while still inside the with block
                with a:
                    try:
                        body()
                    except BaseException as e:
                        a.finish(e)
                        raise
                    else:
                        a.finish()
            elif style == 0:
                with a:
                    body()
            elif style == 1:
                try:
                    with a.context():
                        body()
                except BaseException as e:
                    a.finish(e)
                    raise
                else:
                    a.finish()
            else:
                try:
                    body()
                except BaseException as e:
                    a.finish(e)
                    raise
                else:
                    a.finish()

        def extra(a):
            if xf >= 1:
                a.finish()
            if xf == 2:
                a.finish(ValueError("again"))
                a.finish()

        def guarded(i):
            """Catch the exception `up` levels above the innermost action."""
            catch_here = (depth - 1 - i) == up
            try:
                level(i)
            except BaseException as e:
                if e is not raised[0]:
                    bad("exception-identity", level=i, got=repr(e))
                if not catch_here or raised[0] is None:
                    raise
            finally:
                pass

        def run_top():
            try:
                guarded(0)
            except BaseException as e:
                if e is not raised[0]:
                    bad("exception-identity", level="top", got=repr(e))
                elif up < depth - 1:
                    bad("harness-catch-depth", up=up)

        if ambient == 1:
            try:
                raise Ambient("ambient")
            except Ambient:
                run_top()
        elif ambient == 2:
            try:
                try:
                    raise Ambient("ambient")
                finally:
                    run_top()
            except Ambient:
                pass
        else:
            run_top()
        if current_action() is not before:
            bad("context-not-restored", got=repr(current_action()))
        n_before = len(seen)
        for a in actions:
            extra(a)
        if len(seen) != n_before:
            bad("extra-finish-emitted", emitted=[m.get("action_status") for m in seen[n_before:]])
        return list(seen), raised[0]

    original_text = None
    original_errno = getattr(RAISES[ri]() if RAISES[ri] is not None else None, 'errno', None)
    if RAISES[ri] is not None:
        try:
            original_text = _text(RAISES[ri]())
        except Exception:
            original_text = None
    msgs, exc = world.run_isolated(go)
    fails_from = depth - 1 - up if exc is not None else depth  # levels >= fails_from .. wait: inner levels fail
    # actions i in [depth-1-up, depth-1] fail; outer ones succeed
    n_tb = 0
    for i in range(depth):
        mine = [m for m in msgs if m.get("action_type") == "t%d" % i]
        starts = [m for m in mine if m.get("action_status") == "started"]
        ends = [m for m in mine if m.get("action_status") in ("succeeded", "failed")]
        if len(starts) != 1:
            bad("start-count", level=i, got=len(starts))
            continue
        if len(ends) != 1:
            bad("end-count", level=i, got=len(ends))
            continue
        st, en = starts[0], ends[0]
        want_start = {"sfield": i} if sf else {}

        got_start = {k: v for k, v in st.items() if k not in ("action_type", "action_status", "task_uuid", "task_level", "timestamp")}
        if got_start != want_start:
            bad("start-fields", level=i, got=got_start, want=want_start)
        got_end = {k: v for k, v in en.items() if k not in ("action_type", "action_status", "task_uuid", "task_level", "timestamp")}
        should_fail = exc is not None and i >= depth - 1 - up
        if should_fail:
            if en["action_status"] != "failed":
                bad("failure-logged-as-success:" + type(exc).__name__, level=i)
                continue
            fields, ext_raises = expected_extractor(exc, reg)
            want = dict(fields)
            want["exception"] = "%s.%s" % (type(exc).__module__, type(exc).__name__)
            try:
                want["reason"] = str(exc)
            except Exception:
                want["reason"] = got_end.get("reason") if isinstance(got_end.get("reason"), str) else "<some text>"
            if ambient == 3:
                # the text current when *this* action failed: the innermost saw the original text,
                # action i saw the text set by the handler at level i (which ran after action i+1 failed)
                if i == depth - 1:
                    want["reason"] = original_text
                elif texts.get(i) is not None:
                    want["reason"] = texts[i]
                if want["reason"] is None:
                    want["reason"] = got_end.get("reason") if isinstance(got_end.get("reason"), str) else "<some text>"
                if "errno" in want:
                    # likewise the attribute the extractor reads: as it was when *this* action failed
                    want["errno"] = original_errno if i == depth - 1 else errnos.get(i, want["errno"])
            if got_end != want:
                bad("failed-end-fields", level=i, got=got_end, want=want)
            if ext_raises:
                n_tb += 1
        else:
            if en["action_status"] != "succeeded":
                bad("success-logged-as-failure", level=i)
                continue
            want = {"efield": i} if (ef or ambient == 4) else {}
            if got_end != want:
                bad("success-end-fields", level=i, got=got_end, want=want)
    tbs = [m for m in msgs if m.get("message_type") == "eliot:traceback"]
    if len(tbs) > n_tb:
        # at most one report per extractor that raised (that a report is written at all is the
        # mechanism, not the property: fewer is not a violation)
        bad("more-tracebacks-than-raising-extractors", got=len(tbs), at_most=n_tb)
    others = [m for m in msgs if "action_type" not in m and m.get("message_type") != "eliot:traceback"]
    if others:
        bad("unexpected-messages", got=[m.get("message_type") for m in others])
    return Result(
        outcome=[[m.get("action_type"), m.get("action_status"), m.get("exception")] for m in msgs if "action_type" in m],
        nontrivial=ri != 0,
        violations=viol[:4],
    )
