"""
C08 - every destination gets each message once, in order; faults isolated and
reported.

Engine FLT: the real Destinations.send is run under a fault injector that owns
every answer of the faulty destinations.  All answer sequences with <= k raises
(over the adaptive call sequence: reports are deliveries too) plus fixed
strategies (always raise, raise on reports only, raise on primaries only,
alternate) are explored and each run is compared with a small reference
fan-out model that consumes the same answers.
"""

import re

from vkit import progs, world, flt
from vkit.runner import Result
from vkit.world import eliot

ID = "C08"
LEVEL = "model_checking"
CASE_TIMEOUT = 1800
RULE = (
    "programs = forests <= 3 nodes (<= 6 primary messages) x <= 1 attribute deviation; destination "
    "sets = 6 arrangements of faulty(F)/healthy(H) callables (F, FH, HF, FF, FHF, FFH) x global fields "
    "on/off; answers = every sequence with <= k raises (4 exception kinds for the first raise, kinds_later for further ones) at every destination "
    "call incl. calls delivering reports, plus 5 fixed strategies; state = vector of per-destination "
    "delivered sequences, transition = one destination call; non-trivial = at least one raise"
)
ASSUMPTIONS = [
    "destinations raise Exception subclasses only (as the statement says)",
    "deterministic clock/uuid seams",
]

SCHEMA = {"m": [("api", 4)], "a": [("typed", 2), ("exit", 2), ("style", 2)]}
API_MAP = [0, 4, 5, 7]  # log_message, typed message, write_traceback (eliot:traceback), typed message whose serializer raises (eliot:traceback + eliot:serialization_failure)
DSETS = ["F", "FH", "HF", "FF", "FHF", "FFH"]


def BOUNDS(tier):
    if tier == "quick":
        return {"max_nodes": 3, "devs": 1, "raises": 2, "kinds_first": 5, "kinds_later": 1, "max_primary": 5}
    return {"max_nodes": 3, "devs": 1, "raises": 3, "kinds_first": 5, "kinds_later": 1, "max_primary": 6}


_PROGS = {}


def _progs(tier):
    if tier in _PROGS:
        return _PROGS[tier]
    b = BOUNDS(tier)
    out = _PROGS.setdefault(tier, [])
    for p in progs.programs(b["max_nodes"], b["devs"], SCHEMA):
        q = progs.clone(p)
        for nd in progs.walk(q):
            if nd[0] == "m" and "api" in nd[1]:
                nd[1]["api"] = API_MAP[nd[1]["api"]]
        nprim = sum(2 if x[0] == "a" else 1 for x in progs.walk(q))
        if nprim <= b["max_primary"]:
            out.append(q)
    return out


THR_HARNESSES = [
    {"dests": "FH", "fail_for": ["a", "b"]},
    {"dests": "HF", "fail_for": ["b"]},
    {"dests": "FF", "fail_for": ["a", "b"]},
]
THR_SHARDS = 4


def units(tier):
    ps = _progs(tier)
    out = [[i, ds, g] for i in range(len(ps)) for ds in DSETS for g in (0, 1)]
    pre = 1 if tier == "quick" else 2
    out += [["thr", hi, pre, k] for hi in range(len(THR_HARNESSES)) for k in range(THR_SHARDS)]
    out.append(["other-logger"])
    out += [["scenario", n] for n in C08_SCENARIOS]
    return out


# legal but unusual destinations (shared with C12): destinations that compare equal, a destination that
# removes itself or registers another one while it is being called
C08_SCENARIOS = ["equal-destinations-one-call", "equal-destinations-back-to-back", "destination-fails-during-backlog",
                 "destination-removes-itself-while-live", "destination-registers-another-while-called"]


def cases(unit, tier):
    if unit[0] == "other-logger":
        yield {"other_logger": 1}
        return
    if unit[0] == "scenario":
        yield {"scenario": unit[1]}
        return
    if unit[0] == "thr":
        yield {"thr": unit[1:]}
        return
    i, ds, g = unit
    yield {"prog": _progs(tier)[i], "dests": ds, "globals": g, "raises": BOUNDS(tier)["raises"],
           "kinds_later": BOUNDS(tier)["kinds_later"]}


def DETERMINISM_REPLAY(case):
    return "thr" not in case and "scenario" not in case


def run_thr(hi, bound, shard):
    """Two threads log concurrently while a destination fails: every failure must still be
    reported exactly once (line granularity in eliot/_output.py, all functions)."""
    from vkit import thr
    import eliot._output as _output

    h = THR_HARNESSES[hi]

    def setup(s):
        world.fresh()
        recs = []

        def mk(kind):
            got = []

            def dest(m):
                got.append((m.get("message_type"), m.get("who"), m.get("reason")))
                if kind == "F" and m.get("message_type") == "t:msg" and m.get("who") in h["fail_for"]:
                    raise ValueError("fail-" + m["who"])

            recs.append(got)
            return dest

        eliot.add_destinations(*[mk(c) for c in h["dests"]])

        def body(who):
            return lambda: eliot.log_message("t:msg", who=who)

        def observe(s):
            return {"recv": [list(g) for g in recs]}

        return [("A", body("a")), ("B", body("b"))], observe

    viol = []
    execs = states = transitions = 0
    nf = h["dests"].count("F")
    for x in thr.explore(setup, bound, trace_files=[_output.__file__], shard=shard):
        execs += 1
        transitions += len(x.choices)
        states += 1 + len(x.choices)
        sched = [c[3] for c in x.choices]
        if x.sched.deadlock:
            viol.append(("thr:deadlock", {"schedule": sched}))
        for t in x.sched.threads:
            if t.exc is not None:
                viol.append(("thr:thread-raised", {"exc": repr(t.exc)}))
        for k, got in enumerate(x.obs["recv"]):
            prim = sorted(w for mt, w, r in got if mt == "t:msg")
            reps = sorted(r for mt, w, r in got if mt == "eliot:destination_failure")
            want_reps = sorted("fail-" + w for w in h["fail_for"] for _ in range(nf))
            if prim != ["a", "b"]:
                viol.append(("thr:primary-lost-or-duplicated", {"dest": k, "got": prim, "schedule": sched}))
            elif reps != want_reps:
                viol.append(("thr:failure-reports-under-concurrency", {"dest": k, "got": reps, "want": want_reps,
                                                                     "schedule": sched, "preemptions": x.preemptions}))
        if len(viol) > 3:
            break
    return execs, states, transitions, viol


STRATEGIES = {
    "always": lambda i, lab: 1,
    "always-strraises": lambda i, lab: 4,
    "always-moduleless": lambda i, lab: 5,
    "reports-only": lambda i, lab: 2 if lab[1] == "report" else 0,
    "primaries-only": lambda i, lab: 3 if lab[1] == "primary" else 0,
    "alternate": lambda i, lab: 1 if i % 2 == 0 else 0,
}

_SERIAL = re.compile(r"\"'serial'\": '(\d+)'")


def label_of(m):
    return [
        m.get("action_type", m.get("message_type")),
        m.get("action_status"),
        m.get("serial"),
    ]


def execute(case, devs, strategy=None):
    """Run the program once under the given answers.  Returns
    (answers, dests, interp)."""
    prog, ds, g = case["prog"], case["dests"], case["globals"]

    def go():
        answers = flt.Answers(devs, strategy)
        dests = []
        log = []
        answers.log = log
        for k, c in enumerate(ds):
            dests.append(flt.Dest("d%d" % k, answers if c == "F" else None, log))
        eliot.add_destinations(*dests)
        if g:
            eliot.add_global_fields(gf="G")
        it = progs.Interp(prog)
        it.run()
        return answers, dests, it

    return world.run_isolated(go)


def model(primary, ds, devs, strategy, g):
    """Reference fan-out.  primary: list of labels in emission order.
    Returns per-destination lists of items: ["p", label] or
    ["r", reason-or-None, exception name, about label]."""
    answers = flt.Answers(devs, strategy)
    recv = [[] for _ in ds]

    def send(item, is_report):
        errors = []
        for k, c in enumerate(ds):
            recv[k].append(item)
            if c != "F":
                continue
            i, alt = answers.ask(("d%d" % k, "report" if is_report else "primary"))
            if alt and not is_report:
                errors.append((i, alt))
        for i, alt in errors:
            cls = flt.KINDS[alt]
            reason = None if cls is flt.StrRaisesError else (
                "[Errno 28] fail@%d" % i if cls is OSError else "fail@%d" % i
            )
            name = "%s.%s" % (cls.__module__, cls.__name__)
            send(["r", reason, name, item[1]], True)

    for lab in primary:
        send(["p", lab], False)
    return recv, len(answers.points)


def observed_items(got):
    out = []
    for m in got:
        if m.get("message_type") == "eliot:destination_failure":
            text = m.get("message")
            about = None
            if isinstance(text, str):
                ms = _SERIAL.search(text)
                about = "text"
                # recover the label of the affected message from the rendering
                about = text
            out.append(["r", m.get("reason"), m.get("exception"), about, sorted(m)])
        else:
            out.append(["p", label_of(m)])
    return out


def _about_ok(text, label):
    """The report must carry *a* textual rendering of the affected message: its type, status and
    serial number have to occur in it; the exact layout is not demanded."""
    if not isinstance(text, str):
        return False
    typ, status, serial = label
    if typ and typ not in text:
        return False
    if status is not None and status not in text:
        return False
    if serial is not None and not re.search(r"(?<!\d)%d(?!\d)" % serial, text):
        return False
    return True


REPORT_KEYS = {"message_type", "reason", "exception", "message", "task_uuid", "task_level", "timestamp"}


def compare(case, primary, devs, strategy, dests, npoints):
    ds, g = case["dests"], case["globals"]
    want, mpoints = model(primary, ds, devs, strategy, g)
    viol = []
    for k, d in enumerate(dests):
        got = observed_items(d.got)
        w = want[k]
        if len(got) != len(w):
            viol.append(
                (
                    "delivery-count:%s" % ("faulty" if ds[k] == "F" else "healthy"),
                    {"dest": k, "want": len(w), "got": len(got), "dests": ds},
                )
            )
            continue
        for j, (x, y) in enumerate(zip(w, got)):
            if x[0] != y[0]:
                viol.append(("delivery-order", {"dest": k, "index": j, "want": x, "got": y[:3]}))
                break
            if x[0] == "p":
                if x[1] != y[1]:
                    viol.append(("delivery-order", {"dest": k, "index": j, "want": x, "got": y}))
                    break
            else:
                if x[2] != y[2] or (x[1] is not None and x[1] != y[1]) or not isinstance(y[1], str):
                    viol.append(("report-content", {"dest": k, "index": j, "want": x[:3], "got": y[:3]}))
                    break
                if not _about_ok(y[3], x[3]):
                    viol.append(("report-rendering", {"dest": k, "want_about": x[3], "got": str(y[3])[:200]}))
                    break
                if set(y[4]) - REPORT_KEYS - ({"gf"} if g else set()):
                    viol.append(("report-extra-keys", {"keys": y[4]}))
                    break
        if g:
            for m in d.got:
                if m.get("gf") != "G":
                    viol.append(("global-field-missing", {"dest": k}))
                    break
    if not viol and mpoints != npoints:
        viol.append(("call-count", {"model": mpoints, "impl": npoints}))
    return viol


def run_other_logger():
    """The current action was created with its own logger (a MemoryLogger); a message written through
    the default Logger fails at a destination: the report must still be offered to the destinations."""
    from eliot import MemoryLogger, start_action, log_message, Logger

    viol = []

    def go():
        answers = flt.Answers({}, lambda i, lab: 1 if lab[1] == "primary" else 0)
        bad = flt.Dest("bad", answers)
        good = flt.Dest("good", None)
        eliot.add_destinations(bad, good)
        mem = MemoryLogger()
        with start_action(mem, "parent:own-logger"):
            with start_action(action_type="child:default-logger"):
                log_message("inner", serial=1)
            Logger().write({"message_type": "direct", "task_uuid": "u", "task_level": [1], "timestamp": 1.0})
        return good.got, mem.messages

    got, mem = world.run_isolated(go)
    prim = [m for m in got if m.get("message_type") != "eliot:destination_failure"]
    reps = [m for m in got if m.get("message_type") == "eliot:destination_failure"]
    if len(prim) != 4 or len(reps) != 4:
        viol.append(("report-not-offered-to-destinations:current-action-has-own-logger",
                     {"primaries": len(prim), "reports": len(reps),
                      "in_memory_logger": [m.get("message_type", m.get("action_type")) for m in mem]}))
    return viol


def run_case(case):
    if "scenario" in case:
        from props import c12_buffering

        v = c12_buffering.run_scenario(case["scenario"])
        return Result(outcome=["scenario", case["scenario"], len(v)], nontrivial=True, states=1, transitions=1, violations=v[:3])
    if "other_logger" in case:
        v = run_other_logger()
        return Result(outcome=["other-logger", len(v)], states=1, transitions=1, violations=v)
    if "thr" in case:
        hi, bound, k = case["thr"]
        try:
            execs, states, transitions, viol = run_thr(hi, bound, (k, THR_SHARDS))
        finally:
            world.fresh()
        return Result(outcome=[execs], states=states, transitions=transitions, executions=execs,
                      violations=viol[:3], extra={"thr_schedules": execs})
    viol = []
    # fault-free baseline gives the primary label sequence
    answers, dests, it = execute(case, {})
    primary = [label_of(m) for m in dests[0].got]
    for d in dests[1:]:
        if [label_of(m) for m in d.got] != primary:
            viol.append(("baseline-differs-between-destinations", {}))
    if it.problems:
        viol.append(("api-raised-fault-free", {"p": repr(it.problems)[:300]}))
    states = set()
    transitions = 0
    execs = 0
    raised_runs = 0

    def run(devs):
        a, ds_, it_ = execute(case, devs)
        return len(a.points), (a, ds_, it_)

    for dev, npoints, (a, ds_, it_) in flt.explore(run, case["raises"], lambda depth: 4 if depth == 0 else case.get("kinds_later", 1)):
        execs += 1
        transitions += sum(len(d.got) for d in ds_)
        vec = {}
        raised = ()
        for name, alt in a.log:
            vec[name] = vec.get(name, 0) + 1
            if alt:
                raised = raised + ((name, vec[name], alt),)
            states.add((tuple(sorted(vec.items())), raised))
        if dev:
            raised_runs += 1
        for sig, d in it_.problems:
            viol.append(("api-raised:" + sig, {"devs": list(dev), "d": repr(d)[:200]}))
        for sig, d in compare(case, primary, dict(dev), None, ds_, npoints):
            viol.append((sig, dict(d, devs=[list(x) for x in dev])))
        if len(viol) > 10:
            break
    for name, strat in sorted(STRATEGIES.items()):
        a, ds_, it_ = execute(case, {}, strat)
        execs += 1
        transitions += sum(len(d.got) for d in ds_)
        total = sum(len(d.got) for d in ds_)
        # termination bound: each primary yields at most 1 + (#faulty) deliveries per destination
        nf = case["dests"].count("F")
        if total > len(primary) * (1 + nf) * len(ds_):
            viol.append(("unbounded-reporting", {"strategy": name, "deliveries": total}))
        for sig, d in it_.problems:
            viol.append(("api-raised:" + sig, {"strategy": name}))
        for sig, d in compare(case, primary, {}, strat, ds_, len(a.points)):
            viol.append((sig, dict(d, strategy=name)))
    return Result(
        outcome=[len(primary), execs, transitions, len(states)],
        nontrivial=raised_runs > 0,
        states=len(states),
        transitions=transitions,
        executions=execs,
        violations=viol[:6],
    )


def sanity(summary, tier):
    probs = []
    if summary["extra"].get("thr_schedules", 0) < 100:
        probs.append("concurrent failing-destination harness hardly explored")
    if summary["states"] < 1000:
        probs.append("too few fan-out states")
    return probs
