"""
C07 - logging never raises into, or alters, the application.

Engine SEQ+FLT: programs <= 3 nodes with a hostile value at any field position,
failing field serializers, failing exception extractors and exceptions whose
str() raises, run through (a) the global Logger with a fault-injected
destination before/after a real FileDestination(BytesIO) and (b) a
MemoryLogger.  The fault injector explores every answer sequence of the faulty
destination with <= r raises (4 exception kinds incl. one whose str() raises)
plus always-raise.  Oracle: every public call returns normally, with-blocks
re-raise exactly the application's exception object, log_call returns the
function's value.
"""

import io

from vkit import progs, world, flt
from vkit.runner import Result
from vkit.world import eliot

from eliot import MemoryLogger, FileDestination
from eliot.testing import swap_logger

ID = "C07"
LEVEL = "fault_enumeration"
SHARDS = 4
CASE_TIMEOUT = 300  # generous: a loaded machine must not turn a slow case into a reported hang


def CASE_TIMEOUT_FOR(case):
    """A whole schedule exploration may take seconds on a loaded machine; one program under a handful
    of fault sequences takes milliseconds, so 45 s is already four orders of magnitude of slack."""
    return 300 if "thr" in case else 45
RULE = (
    "programs = forests <= N nodes x <= k deviations over {message api incl. typed with raising "
    "serializer, 6+20 field sets (20 hostile: lock / generator / uncopyable object / 600-deep list, raising __str__/__repr__, non-str dict keys, ints beyond "
    "64 bits, NaN/inf, invalid UTF-8 bytes, lone surrogate, object(), 400-deep list, self-referential "
    "list), action style, typed incl. raising serializers, exits incl. exception with raising "
    "extractor (always / only from the second instance on) / raising __str__, extra finishes}; sinks = (faulty, file, list), (file, faulty), "
    "MemoryLogger; faults = every answer sequence of the faulty destination with <= r raises x "
    "exception kinds + always-raise; plus two threads {logging op} x {add_global_fields} with every line of "
    "Destinations.send / addGlobalFields a scheduling point (preemption bound 2) and pairs of failing operations "
    "interleaved inside the logging calls: no logging call may raise in any schedule; non-trivial = program with a hostile value or a fault"
)
ASSUMPTIONS = [
    "destinations/serializers/extractors raise Exception subclasses (not BaseException), as the statement says",
    "hostile value alphabet of 16 kinds; programs up to the node bound",
]

NFS = progs.N_ALL_FS
SCHEMA = {
    "m": [("api", 10), ("fs", NFS)],
    "a": [("style", 6), ("typed", 3), ("exit", 13), ("sf", NFS), ("ef", NFS), ("xf", 2)],
}
# ok, ValueError, StrRaises, Custom, BadExtract, BadExtract propagating, KeyboardInterrupt, ValueError one level up
EXIT_MAP = [0, 1, 6, 3, 16, 17, 4, 11, 18, 19, 20, 21, 22]  # 22: exception class whose __module__ is None; 21: exception whose extractor works for the first instance and raises for later ones; 18: exception whose extractor fails into another failing extractor; 19, 20: exception whose bool()/len() raise


def BOUNDS(tier):
    if tier == "quick":
        return {"plans": [[1, 3], [2, 2], [3, 1]], "raises": 1, "kinds": 2}
    return {"plans": [[1, 3], [2, 2], [3, 1]], "raises": 2, "kinds": 4}


def thread_harnesses(tier):
    """Logging calls racing with add_global_fields / each other (vkit/proj.py): [harness, line-level functions, bound]"""
    out = []
    for op in ("m", "ok", "poison", "badser", "badx"):
        out.append([{"threads": [[op], ["gf"]], "pre_global": 2}, ["send", "addGlobalFields"], 2 if tier == "quick" else 3])
    out.append([{"threads": [["m"], ["gf", "gf"]], "pre_global": 1}, ["send", "addGlobalFields"], 2])
    for a, b in (("poison", "poison"), ("badser", "badx"), ("badx", "badx"), ("poison", "badser")):
        out.append([{"threads": [[a], [b]]}, None, 99])
    return out


def units(tier):
    out = [["thr", i] for i in range(len(thread_harnesses(tier)))]
    done = {}
    for n_max, devs in BOUNDS(tier)["plans"]:
        for n in range(1, n_max + 1):
            lo = done.get(n, -1)
            if devs <= lo:
                continue
            ns = sum(1 for _ in progs.forests(n))
            for si in range(ns):
                out.append([n, lo + 1, devs, si])
            done[n] = devs
    return out


def _valid(p):
    for nd in progs.walk(p):
        a = nd[1]
        if nd[0] == "a":
            if a.get("style", 0) == 4 and a.get("typed", 0):
                return False
        else:
            if a.get("api", 0) == 5 and a.get("fs", 0):
                return False
    return True


def cases(unit, tier):
    if unit[0] == "thr":
        yield {"thr": thread_harnesses(tier)[unit[1]]}
        return
    n, dlo, dhi, si = unit
    for i, sh in enumerate(progs.forests(n)):
        if i == si:
            shape = sh
            break
    for p in progs.deviate(shape, dhi, SCHEMA, _valid):
        nd = sum(1 for x in progs.walk(p) for v in x[1].values() if v)
        if nd < dlo:
            continue
        q = progs.clone(p)
        for x in progs.walk(q):
            if x[0] == "a" and "exit" in x[1]:
                x[1]["exit"] = EXIT_MAP[x[1]["exit"]]
        yield {"prog": q, "raises": BOUNDS(tier)["raises"], "kinds": BOUNDS(tier)["kinds"]}


KIND_MAP = [None, 1, 5, 4, 2, 3]  # alternative -> flt.KINDS index (ValueError, class without a module name, StrRaises, OSError, DestError)


class NoCopyDest(flt.Dest):
    def __call__(self, message):
        self.got.append(None)
        if self.answers is None:
            return
        is_report = message.get("message_type") == "eliot:destination_failure"
        i, alt = self.answers.ask((self.name, "report" if is_report else "primary"))
        if alt:
            raise flt.make_exc(KIND_MAP[alt], "fail@%d" % i)


def execute(prog, sink, devs, strategy=None):
    def go():
        answers = flt.Answers(devs, strategy)
        mem = None
        if sink == 2:
            mem = MemoryLogger()
            prev = swap_logger(mem)
        else:
            bad = NoCopyDest("bad", answers)
            filed = FileDestination(file=io.BytesIO())
            plain = []
            if sink == 0:
                eliot.add_destinations(bad, filed, plain.append)
            else:
                eliot.add_destinations(filed, bad)
        it = progs.Interp(prog)
        try:
            it.run()
        finally:
            if sink == 2:
                swap_logger(prev)
        return answers, it

    return world.run_isolated(go)


def run_case(case):
    if "thr" in case:
        from vkit import proj

        h, funcs, bound = case["thr"]
        try:
            execs, states, transitions, norders, viol = proj.run(h, line_funcs=funcs, bound=bound)
        finally:
            world.fresh()
        return Result(outcome=["thr", execs], nontrivial=True, executions=execs, states=states, transitions=transitions,
                      violations=[("thr:" + s_, d) for s_, d in viol[:3]])
    prog = case["prog"]
    viol = []
    execs = 0
    faults = 0
    outcomes = set()
    for sink in (0, 1, 2):
        if sink == 2:
            a, it = execute(prog, 2, {})
            execs += 1
            for sig, d in it.problems:
                viol.append(("memorylogger:" + sig, {"d": repr(d)[:300]}))
            continue

        def run(devs):
            a, it = execute(prog, sink, devs)
            return len(a.points), it

        # sink 1 (file first, faulty second) is explored one raise shallower: the faulty
        # destination's position only matters for what the file already received
        for dev, npoints, it in flt.explore(run, case["raises"] - (1 if sink == 1 else 0), case.get("kinds", 4)):
            execs += 1
            faults += len(dev)
            outcomes.add(npoints)
            for sig, d in it.problems:
                viol.append((sig, {"sink": sink, "devs": [list(x) for x in dev], "d": repr(d)[:300]}))
            if len(viol) > 4:
                break
        for alt in (1, 2, 3):
            a, it = execute(prog, sink, {}, lambda i, lab: alt)
            execs += 1
            for sig, d in it.problems:
                viol.append((sig, {"sink": sink, "strategy": "always-%d" % alt, "d": repr(d)[:300]}))
    hostile = any(
        v >= progs.N_FS for x in progs.walk(prog) for k, v in x[1].items() if k in ("fs", "sf", "ef")
    )
    # logging must not use up the application's objects: the one-shot iterator among the hostile values
    # is still unstarted afterwards
    import inspect

    for fsd in progs.HOSTILE:
        for v in fsd.values():
            if inspect.isgenerator(v) and inspect.getgeneratorstate(v) != inspect.GEN_CREATED:
                viol.append(("application-iterator-consumed-by-logging", {"state": inspect.getgeneratorstate(v)}))
                fsd["h"] = (i for i in [1])  # fresh one for the next case
    return Result(
        outcome=[sorted(outcomes), execs],
        nontrivial=hostile or faults > 0,
        executions=execs,
        violations=viol[:4],
        extra={"fault_injections": faults},
    )
