"""
C01 - emitted logs parse back to exactly the executed tree.

Bounded-exhaustive enumeration of logging programs (engine SEQ): every ordered
forest up to N nodes x every set of <= k attribute deviations; each program is
run against the real public API in a fresh world with to_file(BytesIO); the
bytes are split into lines, decoded with the stdlib json module and fed to
Parser.parse_stream; the result must equal the interpreter's reference forest.
"""

import json

from vkit import progs, world
from vkit.runner import Result

ID = "C01"
SHARDS = 4
LEVEL = "exploration"
RULE = (
    "all ordered forests of messages/actions with <= N nodes x all assignments of <= k "
    "non-default attributes (message api/type/field set; action style/typed/type/exit+exception "
    "class/start fields/success fields/extra finishes); a case is non-trivial when it emits at "
    "least one action with a child or a non-default attribute; distinct = distinct program"
)
ASSUMPTIONS = [
    "field values are drawn from 6 JSON-native field sets (value domain itself is C10's)",
    "programs larger than the node bound are not explored",
    "deterministic clock and uuid seams replace time.time/uuid4 in eliot._action",
]

SCHEMA = {
    "m": [("api", 9), ("mt", 3), ("fs", progs.N_FS), ("rf", 2), ("kf", 2)],
    "a": [
        ("style", 10),
        ("typed", 2),
        ("at", 3),
        ("exit", 16),
        ("sf", progs.N_FS),
        ("ef", progs.N_FS),
        ("xf", 3),
        ("rf", 2),
        ("kf", 2),
    ],
}


def BOUNDS(tier):
    if tier == "quick":
        return {"plans": [[3, 2], [4, 1]]}
    return {"plans": [[4, 2], [5, 1], [3, 3]]}


def scenario_type_key_fields():
    """Applications use field names of their own choosing: an action with a start / success field or a
    log_call parameter called ``message_type``, a message with a field called ``action_status``.  The file
    must still parse back to the executed tree (field values included)."""
    import io
    from eliot import start_action, log_message, log_call, to_file

    viol = []

    def go():
        buf = io.BytesIO()
        to_file(buf)

        @log_call(action_type="app:handle")
        def handle(message_type, payload):
            log_message("app:inside", n=2)
            return "ok"

        with start_action(action_type="app:outer", message_type="PING") as a:
            log_message("app:first", n=1)
            handle("QUERY", [1])
            with start_action(action_type="app:inner") as b:
                b.add_success_fields(message_type="PONG")
            a.log("job:poll", action_status="running", n=3)
        log_message("app:alone", action_status="idle")
        return buf.getvalue()

    raw = world.run_isolated(go)
    try:
        dicts = progs.parse_lines(raw)
        tasks = progs.order_tasks(list(progs.Parser.parse_stream(dicts)), dicts)
    except Exception as e:
        return [("type-key-fields:parser-raised", {"error": repr(e)[:200]})]
    got = [progs.from_written(t.root()) for t in tasks]
    want = [
        {"k": "a", "type": "app:outer", "status": "succeeded", "start": {"message_type": "PING"}, "end": {}, "children": [
            {"k": "m", "type": "app:first", "fields": {"n": 1}},
            {"k": "a", "type": "app:handle", "status": "succeeded", "start": {"message_type": "QUERY", "payload": [1]},
             "end": {"result": "ok"}, "children": [{"k": "m", "type": "app:inside", "fields": {"n": 2}}]},
            {"k": "a", "type": "app:inner", "status": "succeeded", "start": {}, "end": {"message_type": "PONG"}, "children": []},
            {"k": "m", "type": "job:poll", "fields": {"action_status": "running", "n": 3}},
        ]},
        {"k": "m", "type": "app:alone", "fields": {"action_status": "idle"}},
    ]
    if len(got) != len(want):
        viol.append(("type-key-fields:task-count", {"got": len(got), "want": len(want), "shapes": progs.shape_sig(got)}))
    else:
        for i, (w, g) in enumerate(zip(want, got)):
            d = progs.first_diff(w, g)
            if d:
                viol.append(("type-key-fields:tree-mismatch", {"task": i, "path": d[0], "expected": repr(d[1])[:200], "got": repr(d[2])[:200]}))
                break
    if any(not t.is_complete() for t in tasks):
        viol.append(("type-key-fields:task-incomplete", {}))
    return viol


def scenario_message_reuse():
    """One deprecated Message object written several times (to an explicit logger outside any action,
    then to the default logger inside an action, then bound and written again): every default-logger
    write must be a child of the action."""
    from eliot import Message, MemoryLogger, start_action

    viol = []

    def go():
        import io

        buf = io.BytesIO()
        progs.eliot.to_file(buf)
        other = MemoryLogger()
        msg = Message.new(message_type="app:reused", x=1)
        msg.write(other)
        with start_action(action_type="app:X"):
            msg.write()
            msg.bind(y=2).write()
        msg.write()
        return buf.getvalue(), list(other.messages)

    raw, other = progs.world.run_isolated(go)
    dicts = progs.parse_lines(raw)
    if len(other) != 1:
        viol.append(("message-reuse:explicit-logger-writes", {"got": len(other)}))
    tasks = list(progs.Parser.parse_stream(dicts))
    shapes = sorted(progs.shape_sig([progs.from_written(t.root())]) for t in tasks)
    if shapes != ["a(m m)", "m"] or not all(t.is_complete() for t in tasks):
        viol.append(("message-reuse:default-logger-tree", {"got": shapes, "lines": len(dicts)}))
    return viol


def _df_forests(n):
    """All ordered forests with exactly n nodes; a node is ("m",) or ("a", children)."""
    if n == 0:
        yield ()
        return
    for first in range(1, n + 1):
        for rest in _df_forests(n - first):
            if first == 1:
                yield (("m",),) + rest
            for kids in _df_forests(first - 1):
                yield (("a", kids),) + rest


def _df_sig(node):
    if node["k"] == "m":
        return "F" if node["type"] == "eliot:destination_failure" else "m"
    return "a[%s](%s)" % (node["status"], " ".join(_df_sig(c) for c in node["children"]))


def scenario_destination_fault(tier):
    """FLT, one deviation: while a forest of with-block actions and messages (every ordered forest of up
    to N nodes) is logged, one of two destinations raises once, at the k-th message, for every k.  The
    other destination's log must parse to the executed forest plus exactly one
    eliot:destination_failure message, placed where the failing logging call was made from: next
    sibling of the message - or of the action whose start / end message it was (an action's start and
    end messages are written from its parent's context) - and a task of its own at top level."""
    from eliot import start_action, log_message

    viol = []
    execs = 0
    nmax = 4 if tier == "quick" else 5

    def expected(forest, k):
        """(sorted task signatures) of the forest with F inserted for a fault at emission index k."""
        counter = [0]

        def walk(nodes, top):
            out = []
            for nd in nodes:
                if nd[0] == "m":
                    hit = counter[0] == k
                    counter[0] += 1
                    out.append("m")
                    if hit:
                        out.append("F")
                else:
                    hit = counter[0] == k
                    counter[0] += 1
                    kids = walk(nd[1], False)
                    hit = hit or counter[0] == k
                    counter[0] += 1
                    out.append("a[succeeded](%s)" % " ".join(kids))
                    if hit:
                        out.append("F")
            return out

        sigs = walk(forest, True)
        return sorted(sigs), counter[0]

    def execute(forest, k):
        def go():
            import io

            buf = io.BytesIO()
            calls = [0]

            def faulty(message):
                i = calls[0]
                calls[0] += 1
                if i == k:
                    raise RuntimeError("destination fault at %d" % k)

            progs.eliot.add_destinations(faulty)
            progs.eliot.to_file(buf)

            def run(nodes):
                for nd in nodes:
                    if nd[0] == "m":
                        log_message(message_type="t:m")
                    else:
                        with start_action(action_type="t:a"):
                            run(nd[1])

            run(forest)
            return buf.getvalue()

        return progs.world.run_isolated(go)

    for n in range(1, nmax + 1):
        for forest in _df_forests(n):
            _, total = expected(forest, -1)
            for k in range(total):
                want, _ = expected(forest, k)
                execs += 1
                try:
                    raw = execute(forest, k)
                    dicts = progs.parse_lines(raw)
                    tasks = list(progs.Parser.parse_stream(dicts))
                    got = sorted(_df_sig(progs.from_written(t.root())) for t in tasks)
                    complete = all(t.is_complete() for t in tasks)
                except Exception as e:
                    viol.append(("destination-fault:run-or-parse-raised", {"forest": repr(forest), "k": k, "error": repr(e)[:200]}))
                    continue
                if got != want or not complete:
                    viol.append(("destination-fault:tree-with-failure-report", {"forest": repr(forest), "fault_at_message": k, "got": got, "want": want, "complete": complete}))
                if len(viol) >= 3:
                    return viol, execs
    return viol, execs


def units(tier):
    """unit = (n_nodes, max_devs, shape_index, only_exact_devs)"""
    out = [["scenario", "message-reuse"], ["scenario", "field-named-like-a-type-key"], ["scenario", "destination-fault", tier]]
    done = {}  # n -> devs already fully covered
    for n_max, devs in BOUNDS(tier)["plans"]:
        for n in range(1, n_max + 1):
            lo = done.get(n, -1)
            if devs <= lo:
                continue
            nshapes = sum(1 for _ in progs.forests(n))
            for si in range(nshapes):
                out.append([n, lo + 1, devs, si])
            done[n] = devs
    return out


def cases(unit, tier):
    if unit[0] == "scenario":
        yield ["scenario"] + list(unit[1:])
        return
    n, dlo, dhi, si = unit
    shape = None
    for i, sh in enumerate(progs.forests(n)):
        if i == si:
            shape = sh
            break
    for p in progs.deviate(shape, dhi, SCHEMA, progs.valid_default):
        nd = sum(1 for x in progs.walk(p) for v in x[1].values() if v)
        if nd >= dlo:
            yield p


def sample_view(case):
    return case


def check_program(prog):
    """Returns (violations, outcome)"""
    viol = []
    it, raw, seen = progs.run_to_file(prog)
    for sig, d in it.problems:
        viol.append((sig, d))
    try:
        dicts = progs.parse_lines(raw)
    except Exception as e:
        return [("file-not-json-lines", {"error": repr(e)})], "unparseable"
    if len(dicts) != len(seen):
        viol.append(("lines-vs-delivered", {"lines": len(dicts), "delivered": len(seen)}))
    else:
        # a destination that keeps the dictionaries and encodes them later must see the same thing
        for i, (line, kept) in enumerate(zip(dicts, seen)):
            try:
                later = json.loads(progs.eliot.json._dumps_bytes(kept, default=progs.eliot.json.json_default))
            except Exception as e:
                viol.append(("delivered-dict-not-encodable-later", {"index": i, "error": repr(e)[:100]}))
                break
            if later != line:
                viol.append(("delivered-dict-changed-after-delivery", {"index": i, "at_delivery": repr(line)[:200], "later": repr(later)[:200]}))
                break
    try:
        tasks = list(progs.Parser.parse_stream(dicts))
    except Exception as e:
        return viol + [("parser-raised", {"error": repr(e)})], "parser-raised"
    tasks = progs.order_tasks(tasks, dicts)
    uuids = [t.root().task_uuid for t in tasks]
    if len(set(uuids)) != len(uuids):
        viol.append(("task-yielded-twice", {"uuids": uuids}))
    got = [progs.from_written(t.root()) for t in tasks]
    ref = it.forest
    if len(got) != len(ref):
        viol.append(
            (
                "task-count",
                {"expected": len(ref), "got": len(got), "ref": progs.shape_sig(ref)},
            )
        )
    else:
        for i, (r, g) in enumerate(zip(ref, got)):
            d = progs.first_diff(_norm_ref(r), g)
            if d:
                viol.append(
                    (
                        "tree-mismatch:" + _kind(d[0]),
                        {"task": i, "path": d[0], "expected": d[1], "got": d[2]},
                    )
                )
                break
    for t in tasks:
        if not t.is_complete():
            viol.append(("task-incomplete", {"uuid": t.root().task_uuid}))
            break
    return viol, progs.shape_sig(got)


def _kind(path):
    import re

    return re.sub(r"\[\d+\]", "[]", path).rsplit(".", 1)[-1][:30]


def _norm_ref(r):
    """Reference node -> comparable with from_written output."""
    if r["k"] == "m":
        return {"k": "m", "type": r["type"], "fields": r["fields"]}
    return {
        "k": "a",
        "type": r["type"],
        "status": r["status"],
        "start": r["start"],
        "end": r["end"],
        "children": [_norm_ref(c) for c in r["children"]],
    }


def run_case(prog):
    if prog and prog[0] == "scenario" and prog[1] == "destination-fault":
        v, execs = scenario_destination_fault(prog[2])
        return Result(outcome=["scenario", prog[1], len(v)], executions=execs, violations=v)
    if prog and prog[0] == "scenario":
        v = scenario_message_reuse() if prog[1] == "message-reuse" else scenario_type_key_fields()
        return Result(outcome=["scenario", prog[1], len(v)], violations=v)
    viol, outcome = check_program(prog)
    nodes = progs.walk(prog)
    nontrivial = len(nodes) > 1 or any(v for n in nodes for v in n[1].values())
    return Result(outcome=outcome, nontrivial=nontrivial, violations=viol)
