"""
C01 - emitted logs parse back to exactly the executed tree.

Bounded-exhaustive enumeration of logging programs (engine SEQ): every ordered
forest up to N nodes x every set of <= k attribute deviations; each program is
run against the real public API in a fresh world with to_file(BytesIO); the
bytes are split into lines, decoded with the stdlib json module and fed to
Parser.parse_stream; the result must equal the interpreter's reference forest.
"""

import json

from vkit import progs, world
from vkit.runner import Result

ID = "C01"
SHARDS = 4
LEVEL = "exploration"
RULE = (
    "all ordered forests of messages/actions with <= N nodes x all assignments of <= k "
    "non-default attributes (message api/type/field set; action style/typed/type/exit+exception "
    "class/start fields/success fields/extra finishes); a case is non-trivial when it emits at "
    "least one action with a child or a non-default attribute; distinct = distinct program"
)
ASSUMPTIONS = [
    "field values are drawn from 6 JSON-native field sets (value domain itself is C10's)",
    "programs larger than the node bound are not explored",
    "deterministic clock and uuid seams replace time.time/uuid4 in eliot._action",
]

SCHEMA = {
    "m": [("api", 9), ("mt", 3), ("fs", progs.N_FS)],
    "a": [
        ("style", 10),
        ("typed", 2),
        ("at", 3),
        ("exit", 16),
        ("sf", progs.N_FS),
        ("ef", progs.N_FS),
        ("xf", 3),
    ],
}


def BOUNDS(tier):
    if tier == "quick":
        return {"plans": [[3, 2], [4, 1]]}
    return {"plans": [[4, 2], [5, 1], [3, 3]]}


def units(tier):
    """unit = (n_nodes, max_devs, shape_index, only_exact_devs)"""
    out = []
    done = {}  # n -> devs already fully covered
    for n_max, devs in BOUNDS(tier)["plans"]:
        for n in range(1, n_max + 1):
            lo = done.get(n, -1)
            if devs <= lo:
                continue
            nshapes = sum(1 for _ in progs.forests(n))
            for si in range(nshapes):
                out.append([n, lo + 1, devs, si])
            done[n] = devs
    return out


def cases(unit, tier):
    n, dlo, dhi, si = unit
    shape = None
    for i, sh in enumerate(progs.forests(n)):
        if i == si:
            shape = sh
            break
    for p in progs.deviate(shape, dhi, SCHEMA, progs.valid_default):
        nd = sum(1 for x in progs.walk(p) for v in x[1].values() if v)
        if nd >= dlo:
            yield p


def sample_view(case):
    return case


def check_program(prog):
    """Returns (violations, outcome)"""
    viol = []
    it, raw, seen = progs.run_to_file(prog)
    for sig, d in it.problems:
        viol.append((sig, d))
    try:
        dicts = progs.parse_lines(raw)
    except Exception as e:
        return [("file-not-json-lines", {"error": repr(e)})], "unparseable"
    if len(dicts) != len(seen):
        viol.append(("lines-vs-delivered", {"lines": len(dicts), "delivered": len(seen)}))
    try:
        tasks = list(progs.Parser.parse_stream(dicts))
    except Exception as e:
        return viol + [("parser-raised", {"error": repr(e)})], "parser-raised"
    tasks.sort(key=lambda t: t.root().task_uuid)
    uuids = [t.root().task_uuid for t in tasks]
    if len(set(uuids)) != len(uuids):
        viol.append(("task-yielded-twice", {"uuids": uuids}))
    got = [progs.from_written(t.root()) for t in tasks]
    ref = it.forest
    if len(got) != len(ref):
        viol.append(
            (
                "task-count",
                {"expected": len(ref), "got": len(got), "ref": progs.shape_sig(ref)},
            )
        )
    else:
        for i, (r, g) in enumerate(zip(ref, got)):
            d = progs.first_diff(_norm_ref(r), g)
            if d:
                viol.append(
                    (
                        "tree-mismatch:" + _kind(d[0]),
                        {"task": i, "path": d[0], "expected": d[1], "got": d[2]},
                    )
                )
                break
    for t in tasks:
        if not t.is_complete():
            viol.append(("task-incomplete", {"uuid": t.root().task_uuid}))
            break
    return viol, progs.shape_sig(got)


def _kind(path):
    import re

    return re.sub(r"\[\d+\]", "[]", path).rsplit(".", 1)[-1][:30]


def _norm_ref(r):
    """Reference node -> comparable with from_written output."""
    if r["k"] == "m":
        return {"k": "m", "type": r["type"], "fields": r["fields"]}
    return {
        "k": "a",
        "type": r["type"],
        "status": r["status"],
        "start": r["start"],
        "end": r["end"],
        "children": [_norm_ref(c) for c in r["children"]],
    }


def run_case(prog):
    viol, outcome = check_program(prog)
    nodes = progs.walk(prog)
    nontrivial = len(nodes) > 1 or any(v for n in nodes for v in n[1].values())
    return Result(outcome=outcome, nontrivial=nontrivial, violations=viol)
