"""
C02 - every message is uniquely and contiguously placed by task_uuid/task_level.

Part (i), engine SEQ+FLT: logging programs x answer sequences of a faulty
destination registered before / after a healthy one (<= k raises, plus
always-raise); the structural invariant (vkit/structinv.py) is evaluated on the
stream the healthy destination received.
Part (ii), engines THR/AIO: a selection of the concurrent programs of C05
(threads with/without preserve_context, asyncio tasks sharing the parent
action) under ALL their schedules; the invariant is evaluated on the merged
stream of every schedule (units ["conc", ...]).  C05 itself evaluates the
invariant on all of its harnesses as well and reports violations as "C02:...".
Part (iii): a fork scenario with the real uuid4.
"""

from vkit import progs, world, flt, structinv
from vkit.runner import Result
from vkit.world import eliot

ID = "C02"
SHARDS = 4
LEVEL = "model_checking"
CASE_TIMEOUT = 1800
RULE = (
    "programs = forests <= N nodes x <= k attribute deviations (all message apis, action styles "
    "with/context+finish/run+finish/start_task/log_call [thorough: finish-while-current], typed, "
    "exits with 6 exception classes and catch depths, field sets, extra finishes); destination "
    "arrangements (bad,good) and (good,bad); answers of `bad` = every sequence with <= r raises "
    "over the adaptive call sequence + always-raise; state = (program point, raises so far), "
    "transition = one destination call; invariant evaluated on good's stream after each "
    "execution; plus a fork scenario (a process that already logged forks 1-3 workers, all log new "
    "tasks into one shared file, real uuid4); every program also run entirely before the first add_destinations (startup-buffer replay) and with a destination that keeps the dictionaries it is given; non-trivial = program with an action and at least one "
    "raise explored"
)
ASSUMPTIONS = [
    "no failing field serializers (quantifier); every serialized task id is continued (remote styles are C06's)",
    "deterministic clock/uuid seams",
]


def BOUNDS(tier):
    if tier == "quick":
        return {"plans": [[2, 3], [3, 1]], "raises": 2, "styles": 8}
    return {"plans": [[3, 2], [4, 1]], "raises": 3, "styles": 8}


def schema(tier):
    return {
        "m": [("api", 7), ("mt", 2), ("fs", 2), ("rf", 2)],
        "a": [
            ("style", BOUNDS(tier)["styles"]),
            ("typed", 2),
            ("exit", 10),
            ("sf", 2),
            ("ef", 2),
            ("xf", 3),
            ("rf", 2),
        ],
    }


# exit index -> progs.EXITS index: ok, ValueError, OSError, Custom, KeyboardInterrupt,
# StrRaises, ValueError caught one level up, ValueError to the top
EXIT_MAP = [0, 1, 2, 3, 4, 6, 11, 12, 16, 15]  # 16: exception whose extractor raises (its traceback is logged)
STYLE_MAP = [0, 1, 2, 3, 4, 5, 8, 9]  # no remote styles (C06); 8, 9 = re-entry of the current action


CONC_THR = [0, 5, 11, 14, 17, 21, 30]  # indexes into c05.thread_harnesses
CONC_AIO = [1, 5, 7, 12, 16, 18]  # indexes into c05.aio_harnesses


def units(tier):
    out = [["fork"]]
    out += [["conc", "thr", i] for i in CONC_THR] + [["conc", "aio", i] for i in CONC_AIO]
    done = {}
    for n_max, devs in BOUNDS(tier)["plans"]:
        for n in range(1, n_max + 1):
            lo = done.get(n, -1)
            if devs <= lo:
                continue
            ns = sum(1 for _ in progs.forests(n))
            for si in range(ns):
                out.append([n, lo + 1, devs, si])
            done[n] = devs
    return out


def cases(unit, tier):
    if unit[0] == "conc":
        yield {"conc": [unit[1], unit[2], tier]}
        return
    if unit == ["fork"]:
        for nchildren in (1, 2, 3):
            for warm in (0, 1, 70):
                yield {"fork": [nchildren, warm]}
        return
    n, dlo, dhi, si = unit
    for i, sh in enumerate(progs.forests(n)):
        if i == si:
            shape = sh
            break
    for p in progs.deviate(shape, dhi, schema(tier), progs.valid_default):
        nd = sum(1 for x in progs.walk(p) for v in x[1].values() if v)
        if nd < dlo:
            continue
        q = progs.clone(p)
        for x in progs.walk(q):
            if x[0] == "a" and "exit" in x[1]:
                x[1]["exit"] = EXIT_MAP[x[1]["exit"]]
            if x[0] == "a" and "style" in x[1]:
                x[1]["style"] = STYLE_MAP[x[1]["style"]]
        if not progs.valid_default(q):
            continue
        yield {"prog": q, "raises": BOUNDS(tier)["raises"]}


def execute(prog, order, devs, strategy=None):
    def go():
        answers = flt.Answers(devs, strategy)
        bad = flt.Dest("bad", answers)
        good = flt.Dest("good", None)
        if order == 0:
            eliot.add_destinations(bad, good)
        else:
            eliot.add_destinations(good, bad)
        it = progs.Interp(prog, tag=True)
        it.run()
        return answers, good, it

    return world.run_isolated(go)


def run_fork(nchildren, warm):
    """A process that has already logged forks workers; parent and children start new tasks and log
    context-less messages into one shared append-mode file: (task_uuid, task_level) must stay unique
    run-wide.  Uses eliot's own id source, i.e. whatever eliot._action.uuid4 was at import (the counter seam would be copied by fork)."""
    import os
    import json
    import uuid
    import tempfile
    import eliot._action as _action
    from eliot import FileDestination, start_action, log_message

    tmp = tempfile.mkdtemp(prefix="vk_c02_", dir="/var/tmp")
    path = os.path.join(tmp, "log")
    world.fresh()
    _action.uuid4 = world.ORIGINAL_UUID4 if world.ORIGINAL_UUID4 is not None else uuid.uuid4
    try:
        f = open(path, "ab")
        eliot.add_destinations(FileDestination(file=f))
        for i in range(warm):
            with start_action(action_type="startup", n=i):
                pass
        for i in range(nchildren):
            pid = os.fork()
            if pid == 0:
                try:
                    with start_action(action_type="request", worker=i):
                        log_message("in-request", worker=i)
                    log_message("contextless", worker=i)
                    with start_action(action_type="request2", worker=i):
                        pass
                finally:
                    os._exit(0)
            os.waitpid(pid, 0)
        with start_action(action_type="request", worker="parent"):
            log_message("in-request", worker="parent")
        log_message("contextless", worker="parent")
        f.close()
        msgs = [json.loads(l) for l in open(path, "rb").read().split(b"\n") if l]
    finally:
        _action.uuid4 = world.UUID4
        world.fresh()
        for fn in os.listdir(tmp):
            os.unlink(os.path.join(tmp, fn))
        os.rmdir(tmp)
    viol = [("fork:" + sig, d) for sig, d in structinv.check_stream(msgs, order=False)]
    expected = warm * 2 + (nchildren + 1) * 4 + nchildren * 2
    if len(msgs) != expected:
        viol.append(("fork:message-count", {"got": len(msgs), "want": expected}))
    return Result(outcome=["fork", nchildren, warm, len(msgs)], states=len(msgs), transitions=len(msgs),
                  executions=nchildren + 1, violations=viol[:3])


def run_conc(kind, idx, tier):
    """Part (ii): the concurrent programs of C05 under ALL their schedules; only the structural
    invariant is judged here (context identity and canonical forests are C05's verdict)."""
    from props import c05_concurrency as c05

    hs = c05.thread_harnesses(tier) if kind == "thr" else c05.aio_harnesses(tier)
    h = hs[idx % len(hs)]
    try:
        if kind == "thr":
            execs, states, transitions, norders, nforests, viol = c05.run_threads(h)
        else:
            execs, states, transitions, norders, nforests, viol = c05.run_aio(h)
    finally:
        world.fresh()
    mine = [("concurrent:" + sig[4:], d) for sig, d in viol if sig.startswith("C02:")]
    return Result(outcome=["conc", kind, idx, execs, norders], nontrivial=norders > 1, states=states,
                  transitions=transitions, executions=execs, violations=mine[:3],
                  extra={"concurrent_schedules": execs})


def DETERMINISM_REPLAY(case):
    return "conc" not in case


def run_case(case):
    if "conc" in case:
        return run_conc(*case["conc"])
    if "fork" in case:
        return run_fork(*case["fork"])
    prog = case["prog"]
    viol = []
    execs = 0
    transitions = 0
    states = set()
    outcomes = set()
    raised = False
    for order in (0, 1):

        def run(devs):
            a, good, it = execute(prog, order, devs)
            return len(a.points), (a, good, it)

        for dev, npoints, (a, good, it) in flt.explore(run, case["raises"], 1):
            execs += 1
            transitions += npoints
            for j in range(npoints + 1):
                states.add((j, tuple(p for p, _ in dev if p < j)))
            raised = raised or bool(dev)
            for sig, d in it.problems:
                viol.append(("api:" + sig, {"devs": list(dev)}))
            for sig, d in structinv.check_stream(good.got):
                viol.append((sig, dict(d, order=order, devs=[list(x) for x in dev])))
            outcomes.add(len(good.got))
            if len(viol) > 6:
                break
        a, good, it = execute(prog, order, {}, lambda i, lab: 1)
        execs += 1
        transitions += len(a.points)
        for sig, d in structinv.check_stream(good.got):
            viol.append((sig, dict(d, order=order, strategy="always")))
        for sig, d in it.problems:
            viol.append(("api:" + sig, {"strategy": "always"}))
    # the whole program runs before the first add_destinations(): what the startup buffer replays
    # (and, separately, what a destination that keeps the dictionaries it was given holds at the end)
    def late():
        it = progs.Interp(prog, tag=True)
        it.run()
        got = []
        eliot.add_destinations(got.append)
        kept = []
        return got, kept

    def keeping():
        kept = []
        eliot.add_destinations(kept.append)
        progs.Interp(prog, tag=True).run()
        return kept

    replayed, _ = world.run_isolated(late)
    kept = world.run_isolated(keeping)
    execs += 2
    for name, stream in (("startup-buffer-replay", replayed), ("dictionaries-kept-by-a-destination", kept)):
        for sig, d in structinv.check_stream(stream):
            viol.append(("%s:%s" % (name, sig), d))
            break
    has_action = any(x[0] == "a" for x in progs.walk(prog))
    return Result(
        outcome=[sorted(outcomes), execs],
        nontrivial=has_action and raised,
        states=len(states),
        transitions=transitions,
        executions=execs,
        violations=viol[:6],
    )
