"""
C04 - the current action is scoped to its block and always restored on exit.

Engine SEQ over scope trees: every tree (up to N nodes) whose nodes are scope
constructs {with new, with new.context(), new.run(f), re-enter context() of the
k-th enclosing action, re-enter run() of the k-th enclosing action, with
start_task(), generator holding `with new:` across a yield and closed by the
driver} x exit kind {fall through, raise caught right outside, raise
propagating to the top}; leaves may also be probe messages.  A reference stack
of the real Action objects is maintained; current_action() is probed by
identity after every entry and exit and inside bodies, and every message /
action created at a probe must be a child of the expected action.
"""

import random

from vkit import progs, world
from vkit.runner import Result
from vkit.world import eliot

from eliot import start_action, start_task, log_message, current_action

ID = "C04"
LEVEL = "model_checking"
SHARDS = 4
RULE = (
    "all ordered forests with <= N nodes (node = scope construct or probe message) x full product of "
    "labels: construct in 15 kinds (incl. a context() object made before the scope it is entered in, `with` on an action that is finished inside its own block or entered a second time, context()/run() of an already finished action, `with` on an action created in another context or before the scope it is entered in), re-entry target k in {0,1,2}, fault in {none, destination raises BaseException on the end message, own logger raises on the end message}, exit in {fall through, Exception / "
    "BaseException caught here, Exception / BaseException propagating to the top}; states = distinct reference context stacks reached (as "
    "tuples of construct kinds), transitions = scope entries + exits executed; non-trivial = tree with "
    "nesting depth >= 2 or a raise"
)
ASSUMPTIONS = [
    "`with action:` on an action that is already entered is excluded (the token slot is single-use by design; the quantifier lists context()/run() re-entry)",
    "trees up to the node bound",
]

KINDS = ["with", "context", "run", "re-context", "re-run", "start_task", "generator-close", "generator-context-close",
         "context-of-finished-action", "run-of-finished-action",
         "with-action-created-in-an-empty-context", "with-action-created-before-the-scope-it-is-entered-in",
         "with-action-finished-explicitly-inside-its-own-block", "with-action-entered-a-second-time",
         "context()-object-made-before-the-scope-it-is-entered-in"]
# exit: 0 fall through, 1 Exception caught right outside, 2 Exception propagating to the top,
#       3 BaseException caught right outside, 4 BaseException propagating to the top
# fault: 0 none; 1 a destination raises a BaseException while it is handed this action's end message;
#        2 the action has its own logger whose write() raises on the end message
SCHEMA = {"m": [], "a": [("c", 15), ("k", 3), ("exit", 5), ("fault", 3)]}


def BOUNDS(tier):
    if tier == "quick":
        return {"full_product_nodes": 2, "deviation_bounded": [[3, 4], [4, 2]]}
    return {"full_product_nodes": 2, "deviation_bounded": [[3, 6], [4, 4], [5, 3], [6, 2]]}


def units(tier):
    b = BOUNDS(tier)
    out = []
    for n in range(1, b["full_product_nodes"] + 1):
        ns = sum(1 for _ in progs.forests(n))
        for si in range(ns):
            out.append([n, 99, si])
    for n, d in b["deviation_bounded"]:
        ns = sum(1 for _ in progs.forests(n))
        for si in range(ns):
            out.append([n, d, si])
    return out


def _valid(p):
    # k only matters for re-entry constructs, and must refer to an existing enclosing action
    def rec(stmts, depth):
        for s in stmts:
            if s[0] != "a":
                continue
            c = s[1].get("c", 0)
            k = s[1].get("k", 0)
            if c in (3, 4):
                if k >= depth or s[1].get("fault", 0):
                    return False
                d2 = depth
            else:
                if k:
                    return False
                d2 = depth + 1
            if not rec(s[2], d2):
                return False
        return True

    return rec(p, 0)


def cases(unit, tier):
    n, devs, si = unit
    for i, sh in enumerate(progs.forests(n)):
        if i == si:
            shape = sh
            break
    for p in progs.deviate(shape, devs, SCHEMA, _valid):
        yield p


class Boom(Exception):
    pass


class BaseBoom(BaseException):
    """Not an Exception: like KeyboardInterrupt / CancelledError / GeneratorExit."""


class FaultBoom(BaseBoom):
    """Raised by the logging machinery itself (destination / logger) while an end message is written."""

    up = 1


class FaultyLogger(object):
    """An action's own logger; writing the action's end message fails."""

    def write(self, dictionary, serializer=None):
        if dictionary.get("action_status") in ("succeeded", "failed"):
            raise FaultBoom("logger")
        eliot._output._DEFAULT_LOGGER.write(dictionary, serializer)


def run_case(prog):
    viol = []
    counts = {"transitions": 0}
    stacks_seen = set()

    def go():
        seen = world.capture()
        stack = []  # (action, kind)
        targets = set()
        tree_ids = set()  # task ids of everything that must be a tree of its own

        def new_tree(uuid, what):
            if uuid in tree_ids:
                viol.append(("new-tree-reuses-a-task-id:" + what, {"uuid": uuid}))
            tree_ids.add(uuid)

        def faulty_destination(m):
            if m.get("action_status") in ("succeeded", "failed") and (m["task_uuid"], tuple(m["task_level"][:-1])) in targets:
                raise FaultBoom("destination")

        eliot.add_destinations(faulty_destination)

        def expect():
            return stack[-1][0] if stack else None

        def note():
            stacks_seen.add(tuple(k for _, k in stack))

        def check(where, node=None):
            cur = current_action()
            if cur is not expect():
                viol.append(
                    (
                        "current-action-wrong:" + where,
                        {
                            "expected": _n(expect()),
                            "got": _n(cur),
                            "stack": [k for _, k in stack],
                            "node": node[1] if node else None,
                        },
                    )
                )

        def child_ok(level, uuid, parent, what):
            if parent is None:
                ok = level in ([1], []) and all(uuid != a.task_uuid for a, _ in stack)
            else:
                ok = uuid == parent.task_uuid and level[:-1] == world.action_level(parent)
            if not ok:
                viol.append(
                    (
                        "wrong-parent:" + what,
                        {"level": level, "parent": _n(parent), "stack": [k for _, k in stack]},
                    )
                )

        def probe():
            n0 = len(seen)
            if expect() is None:
                # an application that makes its own random numbers reproducible
                random.seed(1234)
            log_message("probe")
            m = seen[-1] if len(seen) > n0 else None
            if m is None:
                viol.append(("probe-message-not-delivered", {}))
                return
            child_ok(m["task_level"], m["task_uuid"], expect(), "message")
            if expect() is None:
                new_tree(m["task_uuid"], "context-free-message")

        def new_action0(task=False, fault=0, orphan=False):
            parent = None if orphan else expect()
            if task or parent is None:
                random.seed(1234)
            if fault == 2:
                a = (start_task if task else start_action)(FaultyLogger(), action_type="s")
            else:
                a = (start_task if task else start_action)(action_type="s")
            if fault == 1:
                targets.add((a.task_uuid, tuple(world.action_level(a))))
            if task or parent is None:
                new_tree(a.task_uuid, "start_task" if task else "top-level-action")
            if task:
                if world.action_level(a) != [] or any(a.task_uuid == x.task_uuid for x, _ in stack):
                    viol.append(("start_task-not-a-new-tree", {"level": world.action_level(a)}))
            else:
                if parent is not None:
                    child_ok(world.action_level(a), a.task_uuid, parent, "action")
                if parent is None and world.action_level(a) != []:
                    viol.append(("wrong-parent:action", {"level": world.action_level(a), "parent": None}))
            return a

        def block(stmts):
            for s in stmts:
                node(s)

        def maybe_raise(s):
            ex = s[1].get("exit", 0)
            if ex:
                e = Boom() if ex in (1, 2) else BaseBoom()
                e.up = 1 if ex in (1, 3) else 2
                raise e

        def node(s):
            if s[0] == "m":
                check("at-probe", s)
                probe()
                check("after-probe", s)
                return
            c = s[1].get("c", 0)
            before = current_action()
            try:
                scope(s, c)
            except (Boom, BaseBoom) as e:
                if e.up == 2:
                    counts["transitions"] += 1
                    cur = current_action()
                    if cur is not before:
                        viol.append(("not-restored-after-exception:" + KINDS[c], {"expected": _n(before), "got": _n(cur)}))
                    raise
            counts["transitions"] += 1
            cur = current_action()
            if cur is not before:
                viol.append(
                    (
                        "not-restored-after-%s:%s" % ("return" if not s[1].get("exit") else "exception", KINDS[c]),
                        {"expected": _n(before), "got": _n(cur), "stack": [k for _, k in stack]},
                    )
                )
            check("after-exit", s)

        def inside(s, a, kind):
            stack.append((a, kind))
            note()
            counts["transitions"] += 1
            try:
                check("after-enter:" + kind, s)
                probe()
                block(s[2])
                check("before-exit:" + kind, s)
                maybe_raise(s)
            finally:
                stack.pop()

        def scope(s, c):
            kind = KINDS[c]
            fault = s[1].get("fault", 0)

            def new_action(task=False):
                return new_action0(task, fault)

            if c in (0, 5):
                a = new_action(task=(c == 5))
                with a:
                    inside(s, a, kind)
            elif c == 1:
                a = new_action()
                try:
                    with a.context() as got:
                        if got is not a:
                            viol.append(("context()-yields-other", {}))
                        inside(s, a, kind)
                except BaseException as e:
                    a.finish(e)
                    raise
                else:
                    a.finish()
            elif c == 2:
                a = new_action()
                try:
                    r = a.run(lambda: (inside(s, a, kind), 41)[1])
                    if r != 41:
                        viol.append(("run-return-value", {"got": r}))
                except BaseException as e:
                    a.finish(e)
                    raise
                else:
                    a.finish()
            elif c in (8, 9):
                # the action's end message is already written; its context can still be entered
                # (e.g. callbacks that run later) and what is started there is still its child
                a = new_action()
                a.finish()
                if c == 8:
                    with a.context():
                        inside(s, a, kind)
                else:
                    a.run(lambda: inside(s, a, kind))
            elif c == 12:
                # the application finishes the action itself before the block is left (either way out)
                a = new_action0(False, 0)
                with a:
                    try:
                        inside(s, a, kind)
                    finally:
                        a.finish()
            elif c == 13:
                # an action object used for a second block after its first one finished it
                a = new_action0(False, 0)
                with a:
                    pass
                with a:
                    inside(s, a, kind)
            elif c == 10:
                # created where no action is current (a job object made elsewhere), entered here
                import contextvars

                a = contextvars.Context().run(lambda: new_action0(False, fault, orphan=True))
                with a:
                    inside(s, a, kind)
            elif c == 11:
                # a and b are both started here; a is entered inside b's block: leaving a restores b
                a = new_action()
                b = new_action()
                with b:
                    stack.append((b, "with"))
                    try:
                        check("after-enter:outer-of-" + kind, s)
                        with a:
                            inside(s, a, kind)
                        check("after-exit:inner-of-" + kind, s)
                    finally:
                        stack.pop()
            elif c == 14:
                # the context manager is made here, entered later inside b's block: what is restored on
                # leaving is what was current on entering (b), not what was current when it was made
                a = new_action0(False, 0)
                cm = a.context()
                b = new_action0(False, 0)
                with b:
                    stack.append((b, "with"))
                    try:
                        check("after-enter:outer-of-" + kind, s)
                        with cm:
                            inside(s, a, kind)
                        check("after-exit:inner-of-" + kind, s)
                    finally:
                        stack.pop()
                a.finish()
            elif c == 3:
                a = stack[-1 - s[1].get("k", 0)][0]
                with a.context():
                    inside(s, a, kind)
            elif c == 4:
                a = stack[-1 - s[1].get("k", 0)][0]
                a.run(lambda: inside(s, a, kind))
            elif c in (6, 7):
                holder = {}

                def gen():
                    a = new_action()
                    holder["a"] = a
                    with (a if c == 6 else a.context()):
                        stack.append((a, kind))
                        note()
                        counts["transitions"] += 1
                        holder["pushed"] = True
                        check("after-enter:" + kind, s)
                        probe()
                        block(s[2])
                        maybe_raise(s)
                        yield 1

                g = gen()
                try:
                    next(g)
                    # still inside the generator's block: its action is current
                    check("suspended-in-generator", s)
                    g.close()
                finally:
                    if holder.get("pushed"):
                        stack.pop()
                    if c == 7:
                        holder["a"].finish()

        for top in prog:
            try:
                node(top)
            except (Boom, BaseBoom):
                pass
            if current_action() is not None:
                viol.append(("not-restored-at-top-level", {"got": _n(current_action())}))
                break
        return len(seen)

    nmsgs = world.run_isolated(go)

    def depth(stmts):
        return max([1 + depth(s[2]) for s in stmts if s[0] == "a"] or [0])

    nontrivial = depth(prog) >= 2 or any(x[1].get("exit") for x in progs.walk(prog))
    return Result(
        outcome=[nmsgs, sorted(stacks_seen)],
        nontrivial=nontrivial,
        states=len(stacks_seen) + 1,
        transitions=counts["transitions"],
        violations=viol[:4],
        extra={"distinct_context_stacks": set(stacks_seen)},
    )


def _n(a):
    if a is None:
        return None
    return "%s@%s" % (world.action_type_of(a), world.action_level(a))
