"""
C06 - a serialized task id continues the same tree in another thread/process.

Part 1 (engine SEQ): programs with 1-3 hand-offs (multi-hop, immediate or
deferred, id as bytes or str), each remote side logging to its own file; every
order-preserving merge of the files (when few) or all file permutations,
rotations and the reversal are parsed and compared with the reference forest.
Part 2 (engine THR, line granularity in eliot/_action.py): one
preserve_context callable invoked concurrently by 2-3 threads, threading.Lock
replaced by a scheduler-aware lock; all schedules with <= p preemptions.
"""

import io
import json
import itertools
import contextvars

from vkit import progs, world, thr
from vkit.runner import Result
from vkit.world import eliot

import eliot._action as _action
from eliot import start_action, preserve_context, log_message, FileDestination
from eliot._action import TooManyCalls
from eliot.parse import Parser

ID = "C06"
CASE_TIMEOUT = 3600  # one case is a whole schedule exploration
LEVEL = "model_checking"
SHARDS = 8


def DETERMINISM_REPLAY(case):
    return case[0] != "thr"  # the thread engine verifies schedule replay itself


# "chains" unit: deep hand-offs (ids with up to 8 level components, up to 3 hops) and wide
# ones (reserved positions 9..102, i.e. multi-digit level components)


RULE = (
    "part 1: forests <= N nodes with >= 1 remote hand-off x <= k deviations over styles {with, "
    "remote-immediate/bytes, remote-deferred/str, start_task}, exits, messages; one log file per side; "
    "merges = all order-preserving interleavings if <= 300 else all file permutations + rotations + "
    "reversal; part 2: 2-3 threads calling one preserve_context callable (returning / raising), all "
    "schedules with <= p preemptions at line granularity in preserve_context's wrapper and "
    "continue_task; states = schedule-tree nodes + merges, transitions = scheduling decisions + parsed "
    "merges; non-trivial = program with a hand-off / every thread harness"
)
ASSUMPTIONS = [
    "each id is continued exactly once (quantifier: each id used once)",
    "threading.Lock in eliot._action replaced by a cooperative lock of identical non-blocking semantics",
]

ACT_FILE = _action.__file__

SCHEMA = {"m": [("api", 2)], "a": [("style", 4), ("exit", 3), ("sf", 2)]}
STYLE_MAP = [0, 6, 7, 3]
EXIT_MAP = [0, 1, 12]


def BOUNDS(tier):
    if tier == "quick":
        return {"max_nodes": 4, "devs": {2: 3, 3: 3, 4: 2}, "preemptions": 2, "max_merges": 300}
    return {"max_nodes": 5, "devs": {2: 3, 3: 4, 4: 2, 5: 1}, "preemptions": 3, "max_merges": 1000}


THR_HARNESSES = [
    {"threads": 2, "raises": False},
    {"threads": 2, "raises": True},
    {"threads": 3, "raises": False},
]
NSHARDS = 4


def units(tier):
    b = BOUNDS(tier)
    out = []
    for n in range(2, b["max_nodes"] + 1):
        ns = sum(1 for _ in progs.forests(n))
        for si in range(ns):
            out.append(["seq", n, si])
    for i in range(len(THR_HARNESSES)):
        for k in range(NSHARDS):
            out.append(["thr", i, b["preemptions"], k])
    out.append(["nocontext"])
    out.append(["chains"])
    return out


def _translate(p):
    q = progs.clone(p)
    for nd in progs.walk(q):
        if nd[0] == "a":
            if "style" in nd[1]:
                nd[1]["style"] = STYLE_MAP[nd[1]["style"]]
            if "exit" in nd[1]:
                nd[1]["exit"] = EXIT_MAP[nd[1]["exit"]]
    return q


def _chains(maxdepth):
    """Deep single-path programs: d nested actions whose styles are drawn from
    {with, remote-immediate, remote-deferred}; the innermost holds a message."""
    for d in range(2, maxdepth + 1):
        for styles in itertools.product((0, 6, 7), repeat=d - 1):
            if not any(st in (6, 7) for st in styles):
                continue
            if sum(1 for st in styles if st != 0) > 3:
                continue
            node = ["m", {}]
            for st in reversed(styles):
                node = ["a", {"style": st} if st else {}, [node, ["m", {"api": 1}]]]
            yield [["a", {}, [node]]]
    # wide: ids whose level components have several digits (position >= 10, >= 100), also below a hop
    for k in (8, 9, 10, 11, 99, 100, 101):
        if k > 11 and maxdepth < 8 and k != 100:
            continue
        for st in (6, 7):
            pad = [["m", {}] for _ in range(k)]
            yield [["a", {}, pad + [["a", {"style": st}, [["m", {}]]], ["m", {}]]]]
            yield [["a", {}, pad + [["a", {"style": st}, pad[:10] + [["a", {"style": 6}, [["m", {}]]]]]]]]


def cases(unit, tier):
    if unit[0] == "chains":
        for p in _chains(6 if tier == "quick" else 8):
            yield ["prog", p, 50]
        return
    if unit[0] != "seq":
        yield unit
        return
    _, n, si = unit
    b = BOUNDS(tier)
    for i, sh in enumerate(progs.forests(n)):
        if i == si:
            shape = sh
            break
    for p in progs.deviate(shape, b["devs"][n], SCHEMA):
        q = _translate(p)
        if not progs.valid_default(q):
            continue
        if not any(x[0] == "a" and x[1].get("style") in (6, 7) for x in progs.walk(q)):
            continue
        yield ["prog", q, b["max_merges"]]


def _interleavings(files, cap):
    """All order-preserving merges of the lists in `files`, or None if more than cap."""
    sizes = [len(f) for f in files]
    # count = multinomial
    import math

    total = math.factorial(sum(sizes))
    for s in sizes:
        total //= math.factorial(s)
    if total > cap:
        return None
    out = []
    idx = [0] * len(files)

    def rec(cur):
        if len(cur) == sum(sizes):
            out.append(list(cur))
            return
        for i in range(len(files)):
            if idx[i] < sizes[i]:
                cur.append(files[i][idx[i]])
                idx[i] += 1
                rec(cur)
                idx[i] -= 1
                cur.pop()

    rec([])
    return out


def run_prog(prog, cap):
    from props import c01_roundtrip as c01

    def go():
        files = {}
        it = progs.Interp(prog)

        def router(m):
            fd = files.get(it.side)
            if fd is None:
                buf = io.BytesIO()
                fd = files[it.side] = (FileDestination(file=buf), buf)
            fd[0](m)

        eliot.add_destinations(router)
        it.run()
        return it, {k: v[1].getvalue() for k, v in files.items()}

    it, raw = world.run_isolated(go)
    viol = [(s, d) for s, d in it.problems]
    # ids unique, well-formed
    ids = it.task_ids
    if len(set(ids)) != len(ids):
        viol.append(("task-id-not-unique", {"ids": [i.decode() for i in ids]}))
    files = [progs.parse_lines(raw[k]) for k in sorted(raw)]
    allmsgs = [m for f in files for m in f]
    # every id is continued at exactly its position
    starts = {}
    for m in allmsgs:
        if m.get("action_type") == "eliot:remote_task" and m.get("action_status") == "started":
            starts[(m["task_uuid"], tuple(m["task_level"][:-1]))] = m
    for tid in ids:
        u, lv = tid.decode("ascii").split("@")
        level = tuple(int(x) for x in lv.split("/") if x)
        if (u, level) not in starts:
            viol.append(("remote-not-at-reserved-position", {"id": tid.decode(), "starts": sorted(map(str, starts))}))
    ref = [c01._norm_ref(r) for r in it.forest]
    merges = _interleavings(files, cap)
    exhaustive_merge = merges is not None
    if merges is None:
        merges = []
        for perm in itertools.permutations(range(len(files))):
            merges.append([m for i in perm for m in files[i]])
        flat = merges[0]
        for r in range(1, len(flat)):
            merges.append(flat[r:] + flat[:r])
        merges.append(flat[::-1])
    for order in merges:
        try:
            tasks = list(Parser.parse_stream(order))
        except Exception as e:
            viol.append(("parser-raised-on-merge", {"error": repr(e)[:200]}))
            break
        tasks = progs.order_tasks(tasks, allmsgs)
        got = [progs.from_written(t.root()) for t in tasks]
        if len(got) != len(ref):
            viol.append(("merge-task-count", {"want": len(ref), "got": len(got)}))
            break
        d = None
        for r, g in zip(ref, got):
            d = progs.first_diff(r, g)
            if d:
                break
        if d:
            viol.append(("merge-tree-mismatch:" + c01._kind(d[0]), {"path": d[0], "expected": d[1], "got": d[2]}))
            break
        if not all(t.is_complete() for t in tasks):
            viol.append(("merge-incomplete", {}))
            break
    return Result(
        outcome=[progs.shape_sig(it.forest), len(files), len(merges), exhaustive_merge],
        nontrivial=True,
        states=len(merges),
        transitions=len(merges),
        executions=1 + len(merges),
        violations=viol[:4],
        extra={"merges_parsed": len(merges), "programs_with_all_interleavings": 1 if exhaustive_merge else 0},
    )


class _ThreadingShim(object):
    Lock = thr.CoopLock

    def __getattr__(self, name):
        import threading

        return getattr(threading, name)


class AppError(Exception):
    pass


def run_thr(hi, bound, shard):
    h = THR_HARNESSES[hi]
    funcs = {"restore_eliot_context", "continue_task"}

    def setup(s):
        world.fresh()
        _action.threading = _ThreadingShim()
        seen = world.capture()
        ran = []
        results = [None] * h["threads"]
        sentinel = object()

        def f(x):
            ran.append(x)
            log_message("inside", who=x)
            if h["raises"]:
                raise AppError("app")
            return (sentinel, x)

        box = {}

        def origin():
            with start_action(action_type="origin") as a:
                box["w"] = preserve_context(f)
                box["uuid"] = a.task_uuid

        contextvars.Context().run(origin)
        w = box["w"]

        def body(i):
            def g():
                try:
                    r = w(i)
                    results[i] = ["ret", r[0] is sentinel and r[1] == i]
                except TooManyCalls:
                    results[i] = ["TooManyCalls"]
                except AppError as e:
                    results[i] = ["AppError"]
                except BaseException as e:
                    results[i] = ["other", repr(e)]

            return g

        def observe(s):
            remote = [m for m in seen if m.get("action_type") == "eliot:remote_task"]
            return {
                "ran": list(ran),
                "results": results,
                "remote_msgs": [(m["task_uuid"] == box["uuid"], m["task_level"], m["action_status"]) for m in remote],
                "inside": [(m["task_uuid"] == box["uuid"], m["task_level"]) for m in seen if m.get("message_type") == "inside"],
            }

        return [("T%d" % i, body(i)) for i in range(h["threads"])], observe

    viol = []
    execs = states = transitions = 0
    by_pre = {}
    seen_obs = set()
    expect_one = "AppError" if h["raises"] else "ret"
    for x in thr.explore(setup, bound, trace_files=[ACT_FILE], trace_funcs=funcs, shard=shard):
        execs += 1
        transitions += len(x.choices)
        states += 1 + len(x.choices)
        by_pre[x.preemptions] = by_pre.get(x.preemptions, 0) + 1
        seen_obs.add(repr(x.obs))
        sched = [c[3] for c in x.choices]
        o = x.obs
        if x.sched.deadlock:
            viol.append(("deadlock", {"schedule": sched}))
        kinds = [r[0] if r else None for r in o["results"]]
        if len(o["ran"]) != 1:
            viol.append(("preserved-function-ran-%d-times" % len(o["ran"]), {"schedule": sched, "obs": o, "preemptions": x.preemptions}))
        elif kinds.count(expect_one) != 1 or kinds.count("TooManyCalls") != h["threads"] - 1:
            viol.append(("wrong-results", {"results": o["results"], "schedule": sched}))
        elif expect_one == "ret" and not all(r[1] for r in o["results"] if r[0] == "ret"):
            viol.append(("result-not-passed-through", {"results": o["results"]}))
        elif [m[2] for m in o["remote_msgs"]] != ["started", "failed" if h["raises"] else "succeeded"] or not all(
            m[0] for m in o["remote_msgs"]
        ):
            viol.append(("remote-action-messages", {"msgs": o["remote_msgs"], "schedule": sched}))
        elif o["remote_msgs"][0][1] != [2, 1] or o["inside"] != [(True, [2, 2])]:
            viol.append(("remote-position", {"msgs": o["remote_msgs"], "inside": o["inside"]}))
        if len(viol) >= 3:
            break
    return execs, states, transitions, by_pre, seen_obs, viol


def run_nocontext():
    viol = []

    def go():
        def f():
            return 1

        if preserve_context(f) is not f:
            viol.append(("preserve_context-without-action-is-not-identity", {}))
        # sequential single use, result and exception pass-through, str/bytes ids
        seen = world.capture()
        with start_action(action_type="o"):
            w = preserve_context(lambda a, b=2: (a, b))
        if w(1, b=3) != (1, 3):
            viol.append(("result-not-passed-through", {}))
        try:
            w(1)
            viol.append(("second-call-did-not-raise", {}))
        except TooManyCalls:
            pass
        # the callable may also be run while the originating action is (still / again) current, e.g.
        # inline, through copy_context().run or asyncio.to_thread: the reserved position is what counts
        for how in ("inline", "copied-context"):
            del seen[:]
            with start_action(action_type="o2") as a:
                w2 = preserve_context(lambda: log_message("inside2"))
                log_message("between")
                if how == "inline":
                    w2()
                else:
                    contextvars.copy_context().run(w2)
                log_message("after")
            starts = [m for m in seen if m.get("action_type") == "eliot:remote_task" and m.get("action_status") == "started"]
            if len(starts) != 1 or starts[0]["task_level"] != [2, 1] or starts[0]["task_uuid"] != a.task_uuid:
                viol.append(("remote-not-at-reserved-position:" + how, {"got": [m["task_level"] for m in starts]}))
            levels = sorted(tuple(m["task_level"]) for m in seen if m["task_uuid"] == a.task_uuid)
            if levels != [(1,), (2, 1), (2, 2), (2, 3), (3,), (4,), (5,)]:
                viol.append(("hand-off-levels:" + how, {"got": levels}))

    world.run_isolated(go)
    return viol


def run_case(case):
    import threading as _t

    try:
        if case[0] == "prog":
            return run_prog(case[1], case[2])
        if case[0] == "nocontext":
            v = run_nocontext()
            return Result(outcome=["nocontext", len(v)], states=1, transitions=1, violations=v)
        _, hi, bound, k = case
        execs, states, transitions, by_pre, seen, viol = run_thr(hi, bound, (k, NSHARDS))
        return Result(
            outcome=[execs, sorted(by_pre.items()), len(seen)],
            states=states,
            transitions=transitions,
            executions=execs,
            violations=viol[:3],
            extra={
                "thr_schedules": execs,
                "thr_schedules_with_1_preemption": by_pre.get(1, 0),
                "thr_schedules_with_2_preemptions": by_pre.get(2, 0),
                "thr_schedules_with_3_preemptions": by_pre.get(3, 0),
            },
        )
    finally:
        _action.threading = _t
        world.fresh()


def sanity(summary, tier):
    x = summary["extra"]
    probs = []
    if x.get("thr_schedules_with_1_preemption", 0) < 20:
        probs.append("the preserve_context race was not explored")
    if x.get("merges_parsed", 0) < 1000:
        probs.append("too few merges parsed")
    return probs
