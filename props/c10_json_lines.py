"""
C10 - the JSON log file holds one valid, faithful line per message.

Engine SEQ over inputs: the JSON-native value grammar to depth 2 over a pool of
boundary atoms, plus the documented rich types, x {binary, text} file x
{default, caller json_default}.  A recording file object logs every write()
and flush() call; the line is decoded with the stdlib json module and compared
with the expected normal form.
"""

import io
import os
import json
import math
import tempfile
import datetime
from pathlib import Path, PurePosixPath

from vkit import world, progs
from vkit.runner import Result
from vkit.world import eliot

from eliot import FileDestination
from eliot.json import json_default as eliot_json_default

ID = "C10"
LEVEL = "exploration"
SHARDS = 4
RULE = (
    "values = 45 atoms (strings: empty, ascii, quote, backslash, newline, NUL, 0x1f, 0x7f, U+2028, "
    "accented, U+FFFD, astral, 10 kB, 120 kB; ints: 0, +-1, +-2^31, 2^53+-1, 2^63-1, -2^63; floats: 0.0, -0.0, "
    "0.1, 1.5, 1e-7, 5e-324, max double, NaN, +-inf; true, false, null) + lists/dicts of <= 2 elements "
    "(second element over 12 representative atoms) + one more nesting level around every such container + rich types (Path, date, time, datetime, "
    "set, complex, dataclass, custom class via caller json_default) nested in containers; x {binary, "
    "text} recording files x {default, caller json_default}; plus real BytesIO/StringIO/disk/codecs files and pairs of files of one class that differ in mode (NamedTemporaryFile wb/w, an application wrapper class; both orders); "
    "non-trivial = value other than the integer 0"
)
ASSUMPTIONS = [
    "64-bit integers read as signed; unsigned 2^63..2^64-1 observed but not demanded",
    "Unicode by class representatives, not all code points",
]

BIG = "x" * 10240
HUGE = "h\u00e9" * 40000  # > 64 KiB once encoded
STR_ATOMS = [HUGE, "", "ascii", "\"", "\\", "\n", "\x00", "\x1f", "\x7f", " ", "café", "�", "\U0001f600", "a\"b\\c\nd\te", BIG]
INT_ATOMS = [0, 1, -1, 2 ** 31, -(2 ** 31), 2 ** 53 - 1, 2 ** 53 + 1, 2 ** 63 - 1, -(2 ** 63)]
FLOAT_ATOMS = [0.0, -0.0, 0.1, 1.5, 1e-07, 5e-324, 1.7976931348623157e308, float("nan"), float("inf"), float("-inf")]
OTHER = [True, False, None]
ATOMS = STR_ATOMS + INT_ATOMS + FLOAT_ATOMS + OTHER
SMALL = ["", "\n", "\U0001f600", "a\"b\\c\nd\te", 0, -(2 ** 63), 2 ** 53 + 1, -0.0, 1.5, float("nan"), None, True]


class Custom(object):
    def __init__(self, v):
        self.v = v


def caller_default(o):
    if isinstance(o, Custom):
        return {"custom": o.v}
    return eliot_json_default(o)


def overriding_default(o):
    """A caller's json_default that also covers types eliot's own default knows: the caller's
    function is what is handed to the encoder, so its encoding must win."""
    if isinstance(o, set):
        return {"set": sorted(o)}
    if isinstance(o, Path):
        return {"path": str(o)}
    if isinstance(o, complex):
        return [o.real, o.imag]
    return eliot_json_default(o)


TIER = ["quick"]


def values():
    second = SMALL if TIER[0] == "quick" else ATOMS
    out = list(ATOMS)
    level1 = [[]] + [[a] for a in ATOMS] + [[a, b] for a in ATOMS for b in second]
    level1 += [{}] + [{"k": a} for a in ATOMS] + [{"k": a, "café\n": b} for a in ATOMS for b in second]
    out += level1
    for c in level1:
        out += [[c], {"k": c}, [c, 0], {"a": [c], "b": {"c": c}}]
        if TIER[0] != "quick":
            out += [[[c, None], {"z": [c]}], {"x": {"y": {"z": c}}}]
    return out


def rich_values():
    d = datetime.date(2020, 2, 29)
    t = datetime.time(23, 59, 58, 999999)
    return [
        (Path("/tmp/x y"), "/tmp/x y"),
        (Path("rel/é"), "rel/é"),
        (d, "2020-02-29"),
        (t, "23:59:58.999999"),
        (datetime.datetime(2020, 2, 29, 1, 2, 3), "2020-02-29T01:02:03"),
        (set(), []),
        ({1, 2, 3}, ("SET", [1, 2, 3])),
        ({"a"}, ["a"]),
        ({1, "one"}, ("SET", [1, "one"])),
        ({None, 7}, ("SET", [None, 7])),
        ({(1, 2), ("a", 1)}, ("SET", [[1, 2], ["a", 1]])),
        (complex(1.5, -2), {"real": 1.5, "imag": -2.0}),
        ([Path("/a"), {"k": d}], ["/a", {"k": "2020-02-29"}]),
        ({"s": {2}, "c": complex(0, 1)}, {"s": [2], "c": {"real": 0.0, "imag": 1.0}}),
    ]


def BOUNDS(tier):
    return {"values": len(values()), "rich": len(rich_values()), "history_values": len(history_values()),
            "history_length": 2 if tier == "quick" else 3}


def units(tier):
    global _VALUES
    if TIER[0] != tier:
        TIER[0] = tier
        _VALUES = None
    n = len(values())
    return [["v", i, min(n, i + 100)] for i in range(0, n, 100)] + [["rich"], ["real"], ["custom"]]


def cases(unit, tier):
    global _VALUES
    if TIER[0] != tier:
        TIER[0] = tier
        _VALUES = None
    if unit[0] == "v":
        for i in range(unit[1], unit[2]):
            yield ["v", i, tier]
    elif unit[0] == "rich":
        for i in range(len(rich_values())):
            yield ["rich", i]
    elif unit[0] == "custom":
        yield ["custom", 0]
        yield ["custom", 1]
        yield ["custom", 2]
        for k in range(6):
            yield ["ioerror", k]
        yield ["shared-message"]
        n = len(history_values())
        for i in range(n):
            for j in range(n):
                yield ["history", i, j]
                if tier != "quick":
                    # thorough: every ordered triple (a memo of the last value only, an eviction)
                    for k in range(n):
                        yield ["history", i, j, k]
        for mode in ("binary", "text"):
            for how in ("getattr-delegation", "attribute-rebound"):
                yield ["rotate", mode, how]
    else:
        yield ["real", 0]


_VALUES = None


def value(i):
    global _VALUES
    if _VALUES is None:
        _VALUES = values()
    return _VALUES[i]


def norm(v):
    if isinstance(v, float) and (math.isnan(v) or math.isinf(v)):
        return None
    if isinstance(v, list):
        return [norm(x) for x in v]
    if isinstance(v, dict):
        return {k: norm(x) for k, x in v.items()}
    return v


class RecBinary(object):
    def __init__(self):
        self.calls = []

    def write(self, data):
        if not isinstance(data, bytes):
            raise TypeError("bytes required")
        self.calls.append(("write", data))

    def flush(self):
        self.calls.append(("flush",))


class RecText(object):
    def __init__(self):
        self.calls = []

    def write(self, data):
        if not isinstance(data, str):
            raise TypeError("str required")
        self.calls.append(("write", data))

    def flush(self):
        self.calls.append(("flush",))


def same_multiset(exp, got):
    if isinstance(exp, tuple) and exp and exp[0] == "SET":
        return isinstance(got, list) and sorted(map(json.dumps, got)) == sorted(map(json.dumps, exp[1]))
    if isinstance(exp, dict):
        return isinstance(got, dict) and set(exp) == set(got) and all(same_multiset(exp[k], got[k]) for k in exp)
    if isinstance(exp, list):
        return isinstance(got, list) and len(exp) == len(got) and all(same_multiset(a, b) for a, b in zip(exp, got))
    return progs.same(exp, got)


def check_one(message, expected, default):
    viol = []
    texts = {}
    for mode, Rec in (("binary", RecBinary), ("text", RecText)):
        f = Rec()
        kw = {} if default is None else {"json_default": default}
        dest = FileDestination(file=f, **kw)
        ctor_calls = list(f.calls)
        if any(c[0] == "write" and c[1] not in (b"", "") for c in ctor_calls):
            viol.append(("constructor-wrote-data", {"mode": mode}))
        f.calls[:] = []
        try:
            dest(message)
        except Exception as e:
            viol.append(("destination-raised", {"mode": mode, "error": repr(e)[:200]}))
            continue
        calls = f.calls
        if [c[0] for c in calls] != ["write", "flush"]:
            viol.append(("not-one-write-then-flush", {"mode": mode, "calls": [c[0] for c in calls]}))
            continue
        x = calls[0][1]
        if mode == "binary":
            try:
                text = x.decode("utf-8")
            except UnicodeDecodeError as e:
                viol.append(("not-utf8", {"error": repr(e)}))
                continue
        else:
            text = x
            try:
                x.encode("utf-8")
            except UnicodeEncodeError as e:
                viol.append(("text-not-encodable-as-utf8", {"error": repr(e)}))
                continue
        texts[mode] = text
        if not text.endswith("\n") or "\n" in text[:-1] or "\r" in text:
            viol.append(("line-discipline", {"mode": mode, "text": text[:120]}))
            continue
        try:
            got = json.loads(text)
        except ValueError as e:
            viol.append(("not-valid-json", {"mode": mode, "error": repr(e), "text": text[:120]}))
            continue
        if not isinstance(got, dict):
            viol.append(("not-a-json-object", {"mode": mode}))
            continue
        if not same_multiset(expected, got):
            d = progs.first_diff(expected, got) if not _has_set(expected) else ("$", "set", "set")
            viol.append(("decoded-line-differs", {"mode": mode, "path": d[0] if d else None, "want": str(d[1])[:120] if d else None, "got": str(d[2])[:120] if d else None}))
    if len(texts) == 2 and texts["binary"] != texts["text"]:
        viol.append(("binary-and-text-content-differ", {"binary": texts["binary"][:120], "text": texts["text"][:120]}))
    return viol, texts.get("binary")


def _has_set(x):
    if isinstance(x, tuple):
        return True
    if isinstance(x, dict):
        return any(_has_set(v) for v in x.values())
    if isinstance(x, list):
        return any(_has_set(v) for v in x)
    return False


class _StrIOBase(io.IOBase):
    """An application's own text sink: an io.IOBase (so it has flush/close/context manager) whose
    write() takes str; it is not an io.TextIOBase."""

    def __init__(self):
        io.IOBase.__init__(self)
        self.chunks = []

    def writable(self):
        return True

    def write(self, data):
        if not isinstance(data, str):
            raise TypeError("str required")
        self.chunks.append(data)
        return len(data)


class _Wrap(object):
    """Application file-like object delegating to whatever it wraps."""

    def __init__(self, f):
        self.f = f

    def write(self, data):
        return self.f.write(data)

    def flush(self):
        self.f.flush()


def history_values():
    """Values that compare (and mostly hash) equal to another value in the list while being encoded
    differently, or that a per-value memo could confuse: a line must be a function of the message it
    is written for, never of what the same process wrote before."""
    d = datetime.date(2020, 2, 29)
    return [
        0.0, -0.0, 0, False, 1, True, 1.0, "1",
        complex(0.0, 1.5), complex(-0.0, 1.5), complex(2.0, -0.0), complex(2.0, 0.0), complex(1, 0), 
        d, datetime.datetime(2020, 2, 29), datetime.time(0, 0), datetime.time(0, 0, fold=1),
        Path("a"), Path("a/"), Path("a/."), Path("/a"),
        [0.0], [-0.0], {"k": complex(-0.0, 0.0)}, {"k": complex(0.0, 0.0)}, {1}, {True}, {1.0},
    ]


def _model_encoding(v):
    """The documented encoding, written independently of eliot.json (no memo, no dispatch table)."""
    if isinstance(v, complex):
        return {"real": v.real, "imag": v.imag}
    if isinstance(v, (datetime.date, datetime.time)):
        return v.isoformat()
    if isinstance(v, Path):
        return str(v)
    if isinstance(v, (list, set)):
        return [_model_encoding(x) for x in v]
    if isinstance(v, dict):
        return {k: _model_encoding(x) for k, x in v.items()}
    return v


class _Rotating(object):
    """A log file that is re-opened now and then (rotation): `write`/`flush` are whatever the stream
    that is current *now* provides."""

    def __init__(self, mode, how):
        self._mode, self._how = mode, how
        self.streams = []
        self.rotate()

    def rotate(self):
        if self.streams:
            self.streams[-1].closed_by_rotation = True
        st = RecBinary() if self._mode == "binary" else RecText()
        st.closed_by_rotation = False
        self.streams.append(st)
        if self._how == "attribute-rebound":
            self.write = st.write
            self.flush = st.flush

    def __getattr__(self, name):
        if name in ("write", "flush") and self.__dict__.get("_how") == "getattr-delegation":
            return getattr(self.streams[-1], name)
        raise AttributeError(name)


BASE = {"task_uuid": "u-1", "task_level": [2, 1], "timestamp": 1600000000.25, "message_type": "c10"}


def run_case(case):
    world.fresh()
    if case[0] == "v":
        global _VALUES
        if len(case) > 2 and TIER[0] != case[2]:
            TIER[0] = case[2]
            _VALUES = None
        v = value(case[1])
        msg = dict(BASE, v=v)
        viol, text = check_one(msg, norm(msg), None)
        v2, _ = check_one(msg, norm(msg), caller_default)
        viol += [("caller-default:" + s, d) for s, d in v2]
        return Result(outcome=text if text is None or len(text) < 300 else text[:300], nontrivial=case[1] != STR_ATOMS.__len__(), violations=[(s, dict(d, value=repr(v)[:120])) for s, d in viol[:3]])
    if case[0] == "rich":
        v, exp = rich_values()[case[1]]
        msg = dict(BASE, v=v)
        viol, text = check_one(msg, dict(BASE, v=exp), None)
        v2, _ = check_one(msg, dict(BASE, v=exp), caller_default)
        viol += [("caller-default:" + s, d) for s, d in v2]
        return Result(outcome=text, violations=[(s, dict(d, value=repr(v)[:120])) for s, d in viol[:3]])
    if case[0] == "shared-message":
        # one message object offered to several file destinations with different json_default, and the
        # same dictionary changed and offered again: every line is the encoding of what was offered,
        # by the destination's own default
        viol = []
        fa, fb, fc = RecBinary(), RecBinary(), RecText()
        da = FileDestination(file=fa)
        db = FileDestination(file=fb, json_default=overriding_default)
        dc = FileDestination(file=fc, json_default=caller_default)
        for f in (fa, fb, fc):
            f.calls[:] = []
        msg = dict(BASE, p=Path("/x"), s={1}, n=1)
        for d in (da, db, dc, da):
            try:
                d(msg)
            except Exception as e:
                viol.append(("shared-message:destination-raised", {"error": repr(e)[:200]}))
        msg["n"] = 2
        da(msg)

        def lines(f, binary=True):
            data = [c[1] for c in f.calls if c[0] == "write" and c[1]]
            text = b"".join(data).decode("utf-8") if binary else "".join(data)
            return [json.loads(l) for l in text.split("\n") if l]

        la, lb, lc = lines(fa), lines(fb), lines(fc, False)
        want_a = [dict(BASE, p="/x", s=[1], n=1)] * 2 + [dict(BASE, p="/x", s=[1], n=2)]
        want_b = [dict(BASE, p={"path": "/x"}, s={"set": [1]}, n=1)]
        if la != want_a:
            viol.append(("shared-message:default-destination-lines", {"got": repr(la)[:300]}))
        if lb != want_b:
            viol.append(("shared-message:overriding-default-destination-lines", {"got": repr(lb)[:300]}))
        if lc != want_a[:1]:
            viol.append(("shared-message:text-destination-lines", {"got": repr(lc)[:300]}))
        return Result(outcome=["shared-message", len(viol)], violations=viol[:3])
    if case[0] == "history":
        hv = history_values()
        seq = [hv[x] for x in case[1:]]
        a, b = seq[0], seq[-1]
        viol = []
        out = []
        for Rec, mode in ((RecBinary, "binary"), (RecText, "text")):
            def written(f):
                return [c[1] for c in f.calls if c[0] == "write" and c[1]]
            f1 = Rec()
            d1 = FileDestination(file=f1)
            f1.calls[:] = []
            for val in seq:
                d1(dict(BASE, v=val))
            after = written(f1)
            # the reference: the real encoder on a destination that has seen nothing else ... in a
            # process whose module-level state has been told to forget (world.fresh) cannot be had
            # without a new process, so the reference is the same pair in the opposite order plus
            # the value on its own, compared with each other and with the model's expectation
            f2 = Rec()
            d2 = FileDestination(file=f2)
            f2.calls[:] = []
            d2(dict(BASE, v=b))
            alone = written(f2)
            if len(after) != len(seq) or len(alone) != 1:
                viol.append(("history:write-count:" + mode, {"a": repr(a), "b": repr(b)}))
                continue
            bad_line = False
            for pos, val in enumerate(seq):
                # both lines: which of two equal-comparing values a memo saw first depends on what this
                # worker process ran before
                try:
                    text = after[pos].decode("utf-8") if isinstance(after[pos], bytes) else after[pos]
                    got_v = json.loads(text)["v"]
                except Exception as e:
                    viol.append(("history:line-unreadable:" + mode, {"error": repr(e)[:100]}))
                    bad_line = True
                    break
                if repr(got_v) != repr(_model_encoding(val)):
                    # repr() tells -0.0 from 0.0, True from 1 and 1 from 1.0, which == does not
                    viol.append(("history:line-is-not-the-encoding-of-its-own-message:" + mode, {"sequence": [repr(x) for x in seq], "position": pos, "decoded": repr(got_v), "want": repr(_model_encoding(val))}))
            if bad_line:
                continue
            if after[-1] != alone[0]:
                viol.append(("history:line-depends-on-earlier-message:" + mode, {"earlier": repr(a), "value": repr(b), "line_after": repr(after[-1])[:200], "line_alone": repr(alone[0])[:200]}))
            out.append(repr(after[-1])[:120])
        return Result(outcome=["history", out], nontrivial=case[1] != case[2], violations=viol[:2])
    if case[0] == "rotate":
        mode, how = case[1], case[2]
        viol = []
        rf = _Rotating(mode, how)
        dest = FileDestination(file=rf)
        for st in rf.streams:
            st.calls[:] = []
        plan = [0, 1, "rotate", 2, "rotate", 3, 4]
        want = [[0, 1], [2], [3, 4]]
        raised = []
        for p in plan:
            if p == "rotate":
                rf.rotate()
            else:
                try:
                    dest(dict(BASE, n=p))
                except Exception as e:
                    raised.append(repr(e)[:100])
        got = []
        shapes_ok = True
        for st in rf.streams:
            calls = [c for c in st.calls if not (c[0] == "write" and not c[1])]
            ns = []
            for k in range(0, len(calls), 2):
                pair = calls[k:k + 2]
                if len(pair) != 2 or pair[0][0] != "write" or pair[1][0] != "flush":
                    shapes_ok = False
                    break
                data = pair[0][1]
                text = data.decode("utf-8") if isinstance(data, bytes) else data
                if not text.endswith("\n") or text.count("\n") != 1:
                    shapes_ok = False
                    break
                ns.append(json.loads(text)["n"])
            got.append(ns)
        if raised or got != want or not shapes_ok:
            viol.append(("rotated-file:lines-not-in-the-stream-current-at-the-call", {"mode": mode, "file": how, "got": got, "want": want, "raised": raised[:2], "one_write_one_flush": shapes_ok}))
        return Result(outcome=["rotate", mode, how, got], violations=viol)
    if case[0] == "ioerror":
        # the file's flush() (k < 3) or write() (k >= 3) fails once with a transient error: whatever the
        # destination does about it, no message may end up in the file twice or torn
        exc = [BlockingIOError(11, "again"), InterruptedError(4, "interrupted"), OSError(28, "no space")][case[1] % 3]
        which = "flush" if case[1] < 3 else "write"
        viol = []
        for Rec, mode in ((RecBinary, "binary"), (RecText, "text")):
            f = Rec()
            state = {"armed": True}
            real = getattr(f, which)

            def failing(*a, **k):
                if which == "flush":
                    real(*a, **k)
                if state["armed"] and (which == "flush" or a[0]):
                    state["armed"] = False
                    raise exc
                return real(*a, **k) if which == "write" else None

            setattr(f, which, failing)
            dest = FileDestination(file=f)
            msgs = [dict(BASE, n=i, v="x%d" % i) for i in range(3)]
            raised = 0
            for m in msgs:
                try:
                    dest(m)
                except OSError:
                    raised += 1
            data = [c[1] for c in f.calls if c[0] == "write" and c[1]]
            text = (b"" if mode == "binary" else "").join(data)
            if mode == "binary":
                text = text.decode("utf-8")
            lines = text.split("\n")
            ns = []
            ok = lines[-1] == ""
            for l in lines[:-1]:
                try:
                    ns.append(json.loads(l)["n"])
                except Exception:
                    ok = False
            want = [0, 1, 2] if which == "flush" else [1, 2]
            if not ok or ns != want:
                viol.append(("transient-%s-error:%s-file-lines" % (which, mode), {"error": repr(exc), "lines": ns, "want": want, "raised": raised, "text": text[:200]}))
        return Result(outcome=["ioerror", case[1], len(viol)], violations=viol[:2])
    if case[0] == "custom":
        if case[1] == 2:
            msg = dict(BASE, s={3, 1}, p=Path("/x"), c=complex(1, 2), d=datetime.date(2020, 1, 2))
            exp = dict(BASE, s={"set": [1, 3]}, p={"path": "/x"}, c=[1.0, 2.0], d="2020-01-02")
            viol, text = check_one(msg, exp, overriding_default)
            viol = [("caller-default-precedence:" + s_, d_) for s_, d_ in viol]
            return Result(outcome=text, violations=viol[:3])
        if case[1] == 0:
            msg = dict(BASE, v=Custom([1, Custom("in")]), p=Path("/x"))
            viol, text = check_one(msg, dict(BASE, v={"custom": [1, {"custom": "in"}]}, p="/x"), caller_default)
        else:
            # without the caller's default the custom class is not encodable: the destination must raise
            # (Destinations.send turns that into a failure report), not write a broken line
            f = RecBinary()
            dest = FileDestination(file=f)
            f.calls[:] = []
            viol = []
            try:
                dest(dict(BASE, v=Custom(1)))
                viol.append(("unsupported-object-written", {"calls": repr(f.calls)[:200]}))
            except Exception:
                if any(c[0] == "write" for c in f.calls):
                    viol.append(("partial-write-before-raising", {"calls": repr(f.calls)[:200]}))
            text = None
        return Result(outcome=text, violations=viol[:3])
    # real files: BytesIO, StringIO, disk files in both modes, same-class files of both modes, through to_file; files whose write()/flush() fails once with a transient OSError; one message object offered to destinations with different json_default and re-offered after a change
    viol = []
    msgs = [dict(BASE, v=value(i), n=i) for i in range(0, len(values()), 97)]
    tmp = tempfile.mkdtemp(prefix="vk_c10_", dir="/var/tmp")
    try:
        bio, sio = io.BytesIO(), io.StringIO()
        fb = open(os.path.join(tmp, "b.log"), "ab")
        ft = open(os.path.join(tmp, "t.log"), "a", encoding="utf-8")
        import codecs

        fc1 = codecs.open(os.path.join(tmp, "c1.log"), "w", "utf-8")
        fc2 = codecs.getwriter("utf-8")(open(os.path.join(tmp, "c2.log"), "wb"))
        # files of one and the same class that differ in what they accept: temporary files in
        # binary and text mode (binary first) and an application wrapper class (text first)
        ntb = tempfile.NamedTemporaryFile("wb", dir=tmp, delete=False)
        ntt = tempfile.NamedTemporaryFile("w", encoding="utf-8", dir=tmp, delete=False)
        wt, wb = _Wrap(io.StringIO()), _Wrap(io.BytesIO())
        # text-mode files that are io.IOBase objects without being io.TextIOBase ones
        spool = tempfile.SpooledTemporaryFile(mode="w", encoding="utf-8", newline="", dir=tmp)
        iob = _StrIOBase()
        eliot.to_file(spool)
        eliot.to_file(iob)
        eliot.to_file(ntb)
        eliot.to_file(ntt)
        eliot.to_file(wt)
        eliot.to_file(wb)
        eliot.to_file(bio)
        eliot.to_file(sio)
        eliot.to_file(fb)
        eliot.to_file(ft)
        eliot.to_file(fc1)
        eliot.to_file(fc2)
        sizes = []
        for m in msgs:
            eliot.Logger().write(m)
            # visible immediately after the call (flushed), whole lines only
            with open(os.path.join(tmp, "b.log"), "rb") as r:
                data = r.read()
            sizes.append(len(data))
            if not data.endswith(b"\n") or data.count(b"\n") != len(sizes):
                viol.append(("disk-file-not-flushed-line-by-line", {"after": len(sizes)}))
                break
        fb.close()
        ft.close()
        fc1.close()
        fc2.close()
        ntb.close()
        ntt.close()
        contents = {
            "NamedTemporaryFile(wb)": open(ntb.name, "rb").read().decode("utf-8"),
            "NamedTemporaryFile(w)": open(ntt.name, "r", encoding="utf-8", newline="").read(),
            "SpooledTemporaryFile(w)": (spool.seek(0), spool.read())[1],
            "io.IOBase subclass taking str": "".join(iob.chunks),
            "wrapper(StringIO)": wt.f.getvalue(),
            "wrapper(BytesIO)": wb.f.getvalue().decode("utf-8"),
            "codecs.open": open(os.path.join(tmp, "c1.log"), "rb").read().decode("utf-8"),
            "codecs.getwriter": open(os.path.join(tmp, "c2.log"), "rb").read().decode("utf-8"),
            "BytesIO": bio.getvalue().decode("utf-8"),
            "StringIO": sio.getvalue(),
            "disk-binary": open(os.path.join(tmp, "b.log"), "rb").read().decode("utf-8"),
            "disk-text": open(os.path.join(tmp, "t.log"), "r", encoding="utf-8", newline="").read(),
        }
        ref = contents["BytesIO"]
        for k, c in contents.items():
            if c != ref:
                viol.append(("real-file-content-differs", {"file": k}))
        lines = ref.split("\n")
        if lines[-1] != "" or len(lines) - 1 != len(msgs):
            viol.append(("real-file-line-count", {"lines": len(lines) - 1, "messages": len(msgs)}))
        else:
            for l, m in zip(lines, msgs):
                if not same_multiset(norm(m), json.loads(l)):
                    viol.append(("real-file-line-differs", {"n": m["n"]}))
                    break
    finally:
        world.fresh()
        for fn in os.listdir(tmp):
            os.unlink(os.path.join(tmp, fn))
        os.rmdir(tmp)
    return Result(outcome=["real", len(msgs)], violations=viol[:3])
