"""
C17 - test helpers reconstruct the same action tree as the parser.

Engine SEQ: bounded-exhaustive logging programs captured by one MemoryLogger
(action types from {X, Y} so that equal types occur as siblings and at several
depths, message types {m, n}, failed actions, several tasks, immediate and
deferred remote sub-tasks).  For every action type, LoggedAction.of_type is
compared with the Parser's tree of the same messages and with the
interpreter's reference; descendants(), type_tree(), LoggedMessage.of_type and
the assertHas* helpers are checked against the same reference.
"""

import unittest

from vkit import progs, world
from vkit.runner import Result
from vkit.world import eliot

from eliot import MemoryLogger
from eliot.parse import Parser
from eliot.testing import (
    LoggedAction,
    LoggedMessage,
    swap_logger,
    assertHasAction,
    assertHasMessage,
)
from eliot._action import WrittenAction

ID = "C17"
LEVEL = "exploration"
SHARDS = 4
RULE = (
    "programs = forests <= N nodes x <= k deviations over {message type m/n/'' and api, action type X/Y, "
    "style with/context+finish/run+finish/start_task/log_call/remote-immediate/remote-deferred, exit "
    "ok/failed/propagating, start/success fields}; all captured by one MemoryLogger (and inspected once more, with the first results kept alive, before a deferred remote sub-task logs into already finished actions); every action type "
    "and message type occurring is queried; assert helpers are tried with {exact, subset, one wrong "
    "value, one absent key, wrong succeeded flag}; non-trivial = program with >= 2 actions"
)
ASSUMPTIONS = [
    "every action is finished (fromMessages raises ValueError for an unfinished one by documented contract)",
    "for a deferred remote sub-task emission order and level order differ by construction: children are compared as a set keyed by task_level plus emission order",
]

SCHEMA = {
    "m": [("api", 2), ("mt", 3), ("fs", 2), ("rf", 2)],
    "a": [("style", 8), ("at", 3), ("exit", 3), ("sf", 2), ("ef", 2), ("rf", 2)],
}
EXIT_MAP = [0, 1, 12]


def BOUNDS(tier):
    if tier == "quick":
        return {"plans": [[3, 2], [4, 1]]}
    return {"plans": [[3, 3], [4, 2], [5, 1]]}


def wide_programs():
    out = []
    for n, subs in ((22, (0, 18, 19)), (12, (0, 8, 9))):
        kids = []
        for i in range(n):
            if i in subs:
                kids.append(["a", {"at": i % 2, "exit": (1 if i == subs[-1] else 0)}, [["m", {}], ["a", {}, []]]])
            else:
                kids.append(["m", {"mt": i % 2}])
        out.append([["a", {}, kids]])
    return out


def units(tier):
    out = [["wide", i] for i in range(len(wide_programs()))]
    done = {}
    for n_max, devs in BOUNDS(tier)["plans"]:
        for n in range(1, n_max + 1):
            lo = done.get(n, -1)
            if devs <= lo:
                continue
            ns = sum(1 for _ in progs.forests(n))
            for si in range(ns):
                out.append([n, lo + 1, devs, si])
            done[n] = devs
    return out


def cases(unit, tier):
    if unit[0] == "wide":
        yield wide_programs()[unit[1]]
        return
    n, dlo, dhi, si = unit
    for i, sh in enumerate(progs.forests(n)):
        if i == si:
            shape = sh
            break
    for p in progs.deviate(shape, dhi, SCHEMA, progs.valid_default):
        nd = sum(1 for x in progs.walk(p) for v in x[1].values() if v)
        if nd < dlo:
            continue
        q = progs.clone(p)
        for x in progs.walk(q):
            if x[0] == "a" and "exit" in x[1]:
                x[1]["exit"] = EXIT_MAP[x[1]["exit"]]
        yield q


def capture(prog):
    def go():
        logger = MemoryLogger()
        prev = swap_logger(logger)
        kept = []

        def inspect_early(it):
            # a test may look at the log, keep what it found, and look again after more was logged
            # into the same (already finished) actions: the later look must show the later state
            for at in sorted(set(m["action_type"] for m in logger.messages if "action_type" in m)):
                try:
                    kept.append(LoggedAction.of_type(logger.messages, at))
                except Exception:
                    pass

        try:
            it = progs.Interp(prog)
            it.before_deferred = inspect_early
            it.run()
        finally:
            swap_logger(prev)
        it.kept_early = kept
        return it, logger

    return world.run_isolated(go)


def key_of(m):
    return (m["task_uuid"], tuple(m["task_level"]))


def la_tree(la):
    """LoggedAction -> nested comparable structure keyed by message identity."""
    kids = []
    for c in la.children:
        if isinstance(c, LoggedAction):
            kids.append(la_tree(c))
        else:
            kids.append(["m", key_of(c.message)])
    return ["a", key_of(la.start_message), key_of(la.end_message), la.succeeded, kids]


def wa_tree(node):
    if isinstance(node, WrittenAction):
        kids = [wa_tree(c) for c in node.children]
        return [
            "a",
            (node.task_uuid, tuple(node.start_message.task_level.as_list())),
            (node.task_uuid, tuple(node.end_message.task_level.as_list())),
            node.status == "succeeded",
            kids,
        ]
    return ["m", (node.task_uuid, tuple(node.task_level.as_list()))]


def sort_by_emission(tree, pos):
    """Order children by first emission (what LoggedAction documents)."""
    if tree[0] == "m":
        return tree
    kids = [sort_by_emission(k, pos) for k in tree[4]]
    kids.sort(key=lambda k: pos[k[1]])
    return tree[:4] + [kids]


def ref_type_tree(ref):
    kids = []
    for c in ref["children"]:
        if c["k"] == "a":
            kids.append(ref_type_tree(c))
        else:
            kids.append(c["type"])
    return {ref["type"]: kids}


def all_ref_actions(forest):
    out = []

    def rec(n):
        if n["k"] == "a":
            out.append(n)
            for c in n["children"]:
                rec(c)

    for r in forest:
        rec(r)
    return out


class _T(unittest.TestCase):
    def runTest(self):
        pass


def run_case(prog):
    viol = []
    it, logger = capture(prog)
    msgs = logger.messages
    if it.problems:
        return Result(outcome="problems", violations=[("interpreter:" + s, d) for s, d in it.problems[:2]])
    pos = {key_of(m): i for i, m in enumerate(msgs)}
    try:
        tasks = list(Parser.parse_stream(msgs))
    except Exception as e:
        return Result(outcome="parser-raised", violations=[("parser-raised", {"error": repr(e)[:200]})])
    parser_nodes = {}

    def index(node):
        if isinstance(node, WrittenAction):
            parser_nodes[(node.task_uuid, tuple(node.start_message.task_level.as_list()))] = node
            for c in node.children:
                index(c)

    for t in tasks:
        index(t.root())
    atypes = sorted(set(m["action_type"] for m in msgs if "action_type" in m))
    mtypes = sorted(set(m["message_type"] for m in msgs if "message_type" in m))
    n_actions = 0
    has_deferred = any(x[0] == "a" and x[1].get("style") == 7 for x in progs.walk(prog))
    for at in atypes + ["no:such:type"]:
        try:
            found = LoggedAction.of_type(msgs, at)
        except Exception as e:
            viol.append(("of_type-raised", {"type": at, "error": repr(e)[:200]}))
            continue
        starts = [m for m in msgs if m.get("action_type") == at and m.get("action_status") == "started"]
        if [key_of(la.start_message) for la in found] != [key_of(m) for m in starts]:
            viol.append(("of_type-entries", {"type": at, "got": len(found), "want": len(starts)}))
            continue
        for la in found:
            n_actions += 1
            node = parser_nodes.get(key_of(la.start_message))
            if node is None:
                viol.append(("action-unknown-to-parser", {"type": at}))
                continue
            got = la_tree(la)
            want = sort_by_emission(wa_tree(node), pos)
            if got != want:
                viol.append(("tree-differs-from-parser", {"type": at, "got": repr(got)[:300], "want": repr(want)[:300]}))
            elif not has_deferred and got != wa_tree(node):
                viol.append(("order-differs-from-parser", {"type": at}))
            # descendants = pre-order
            def pre(t):
                out = []
                for k in t[4]:
                    out.append(k[1])
                    if k[0] == "a":
                        out.extend(pre(k))
                return out

            desc = [key_of(d.start_message) if isinstance(d, LoggedAction) else key_of(d.message) for d in la.descendants()]
            if desc != pre(got):
                viol.append(("descendants-not-preorder", {"type": at}))
            if la.start_message is not la.startMessage or la.end_message is not la.endMessage:
                viol.append(("pep8-aliases", {}))
    # type_tree against the interpreter's reference (in emission order of starts)
    refs = all_ref_actions(it.forest)
    by_type = {}
    for r in refs:
        by_type.setdefault(r["type"], []).append(r)
    for at, rs in by_type.items():
        try:
            found = LoggedAction.of_type(msgs, at)
        except Exception as e:
            # the parser rebuilt these actions (the reference comes from it and the interpreter)
            viol.append(("of_type-raised", {"type": at, "error": repr(e)[:200]}))
            continue
        if len(found) != len(rs):
            viol.append(("of_type-count-vs-reference", {"type": at, "got": len(found), "want": len(rs)}))
            continue
        if not has_deferred:
            got = sorted(repr(la.type_tree()) for la in found)
            want = sorted(repr(ref_type_tree(r)) for r in rs)
            if got != want:
                viol.append(("type_tree-differs-from-reference", {"type": at, "got": got[:2], "want": want[:2]}))
        for la, ok in zip(found, None or []):
            pass
    for mt in mtypes + ["no:such:message"]:
        found = LoggedMessage.of_type(msgs, mt)
        want = [m for m in msgs if m.get("message_type") == mt]
        if [id(x.message) for x in found] != [id(m) for m in want]:
            viol.append(("LoggedMessage.of_type", {"type": mt, "got": len(found), "want": len(want)}))
    # assert helpers on the first action / message of each type
    tc = _T()
    for at in atypes:
        starts = [m for m in msgs if m.get("action_type") == at and m.get("action_status") == "started"]
        first = starts[0]
        end = [m for m in msgs if m["task_uuid"] == first["task_uuid"] and m["task_level"][:-1] == first["task_level"][:-1]
               and m.get("action_status") in ("succeeded", "failed")][0]
        ok = end["action_status"] == "succeeded"
        sf = {k: v for k, v in first.items() if k in ("x", "who", "action_type")}
        efl = {k: v for k, v in end.items() if k in ("x", "result", "exception", "action_status")}
        trials = [
            (ok, sf, efl, True),
            (ok, {}, {}, True),
            (ok, None, None, True),
            (not ok, sf, efl, False),
            (ok, dict(sf, action_type="wrong"), efl, False),
            (ok, dict(sf, absent_key=1), efl, False),
            (ok, sf, dict(efl, absent_key=1), False),
            (ok, dict(sf, absent_key=None), efl, False),
            (ok, sf, dict(efl, absent_key=None), False),
        ]
        for succ, s_, e_, should in trials:
            try:
                r = assertHasAction(tc, logger, at, succ, s_, e_)
                passed = True
                if key_of(r.start_message) != key_of(first):
                    viol.append(("assertHasAction-returned-other-action", {"type": at}))
            except AssertionError:
                passed = False
            except Exception as e:
                # the parser rebuilt this action from the same log; a helper that cannot is not equivalent
                viol.append(("assertHasAction-raised", {"type": at, "error": repr(e)[:200]}))
                break
            if passed != should:
                viol.append(("assertHasAction-%s" % ("accepted-wrong" if passed else "rejected-right"), {"type": at, "succeeded": succ, "start": repr(s_), "end": repr(e_)}))
    for mt in mtypes:
        first = [m for m in msgs if m.get("message_type") == mt][0]
        sub = {k: v for k, v in first.items() if k in ("serial", "message_type")}
        for fields, should in ((sub, True), ({}, True), (None, True), (dict(sub, serial=-1), False), (dict(sub, nokey=1), False), (dict(sub, nokey=None), False)):
            try:
                r = assertHasMessage(tc, logger, _MT(mt), fields)
                passed = r.message is first
            except AssertionError:
                passed = False
            if passed != should:
                viol.append(("assertHasMessage-%s" % ("accepted-wrong" if passed else "rejected-right"), {"type": mt, "fields": repr(fields)}))
    try:
        assertHasAction(tc, logger, "no:such:type", True)
        viol.append(("assertHasAction-accepted-missing-type", {}))
    except AssertionError:
        pass
    return Result(
        outcome=[progs.shape_sig(it.forest), n_actions],
        nontrivial=len(refs) >= 2,
        violations=viol[:4],
    )


class _MT(object):
    """Stand-in exposing .message_type like eliot.MessageType (assertHasMessage accepts both)."""

    def __init__(self, t):
        self.message_type = t
