"""
C14 - test-time validation accepts exactly the messages matching their declared types.

Engine SEQ over inputs.  Part 1: type definitions (1-2 declared fields over 6
field kinds) x message kind {MessageType, ActionType start / success / failure,
eliot:traceback, untyped} x {conforming, every single-point deviation}; each
message is written to a MemoryLogger (through the public API when it conforms,
as a hand-built dictionary otherwise) and check_for_errors must raise exactly
when a deviation is present or a traceback is unflushed.  Part 2: decorated
unittest methods (capture_logging / validate_logging) run by a real TestSuite
for every outcome x default logger before the test x sequence/nesting; the
default logger must be restored by identity.
"""

import io
import unittest
import itertools

from vkit import world
from vkit.runner import Result
from vkit.world import eliot

import eliot._output as _output
from eliot import (
    MessageType,
    ActionType,
    Field,
    MemoryLogger,
    ValidationError,
    write_traceback,
    register_exception_extractor,
    log_message,
    start_action,
)
from eliot.testing import (
    check_for_errors,
    UnflushedTracebacks,
    capture_logging,
    validate_logging,
    swap_logger,
)
from eliot._traceback import TRACEBACK_MESSAGE

ID = "C14"
LEVEL = "exploration"
RULE = (
    "part 1: definitions = 1-2 declared fields from {forTypes[int], forTypes[str,None], forTypes[list], "
    "forTypes[dict], forValue, serializer+extraValidator, forTypes with an extra validator}; plus all histories of <= 4 MemoryLogger operations {valid message, invalid message, invalid message whose value equals the valid one (1.0 for 1), validate, reset, traceback, flush}; message kinds = {MessageType, ActionType "
    "start, success, failure (with extractor fields), eliot:traceback (with extractor fields), untyped}; "
    "deviations (one at a time, at every applicable field) = {missing, extra field named extra / reason "
    "/ exception / message_type / action_status / task_uuid2, wrong type, validator-rejected, forValue "
    "mismatch, not JSON-encodable value, non-text field name}; tracebacks {none, flushed, unflushed, "
    "flushed for another class}; part 2: test outcomes {pass, fail, error, skip, failing assertion "
    "callback, invalid message, test re-swaps the default logger and passes / errors} x previous default logger {original, other MemoryLogger} x {single, two "
    "in sequence, nested}; non-trivial = message with a deviation or a non-passing test"
)
ASSUMPTIONS = [
    "'not JSON-encodable' uses values no JSON encoder accepts (object(), a function); integers beyond 64 bits, nested non-text keys and lone surrogates are encoder-dependent and not demanded",
]


class Rejected(object):
    pass


def nonempty(v):
    if not len(v):
        raise ValidationError(v, "must not be empty")


def even_only(v):
    if v % 2:
        raise ValidationError(v, "must be even")


FIELD_KINDS = [
    ("int", lambda k: Field.for_types(k, [int], ""), 4, "x"),
    ("str-or-none", lambda k: Field.for_types(k, [str, None], ""), None, 5),
    ("list", lambda k: Field.for_types(k, [list], ""), [1, "a"], {"a": 1}),
    ("dict", lambda k: Field.for_types(k, [dict], ""), {"a": [1]}, [1]),
    ("value", lambda k: Field.for_value(k, "fixed", ""), "fixed", "other"),
    ("validated", lambda k: Field(k, lambda v: v * 2, "", even_only), 6, 7),
    # typed AND extra validator: a wrong-typed value the validator itself tolerates
    ("int+validator", lambda k: Field.for_types(k, [int], "", lambda v: None), 8, "8"),
    ("list+validator", lambda k: Field.for_types(k, [list], "", nonempty), [1], "x"),
]
EXTRA_NAMES = ["extra", "reason", "exception", "message_type", "action_status", "task_uuid2", "action_type"]
KINDS = ["message", "start", "success", "failure", "traceback", "untyped"]


class AppError(Exception):
    pass


class OtherError(Exception):
    pass


def BOUNDS(tier):
    return {"max_declared_fields": 2 if tier == "quick" else 3}


def definitions(tier="quick"):
    out = [[i] for i in range(len(FIELD_KINDS))]
    out += [[i, j] for i in range(len(FIELD_KINDS)) for j in range(len(FIELD_KINDS))]
    if tier != "quick":
        out += [[i, j, k] for i in range(len(FIELD_KINDS)) for j in range(len(FIELD_KINDS)) for k in range(len(FIELD_KINDS))]
    return out


def units(tier):
    return [["def", d] for d in definitions(tier)] + [["tests"], ["histories"]]


HIST_OPS = ["good", "bad", "validate", "reset", "tb", "flush", "bad-equal"]  # bad-equal: a value of the wrong type that equals the valid one (1.0 for 1)


def run_history(ops):
    """A sequence of MemoryLogger operations; the final check_for_errors must raise exactly when an
    invalid message or an unflushed traceback was logged after the last reset()."""
    T = MessageType("c14:h", [Field.for_types("n", [int], "")], "")

    def go():
        logger = MemoryLogger()
        bad = tbs = False
        for op in ops:
            if op == "good":
                logger.write({"message_type": "c14:h", "n": 1, "task_uuid": "u", "task_level": [1], "timestamp": 1.0}, T._serializer)
            elif op == "bad-equal":
                logger.write({"message_type": "c14:h", "n": 1.0, "task_uuid": "u", "task_level": [1], "timestamp": 1.0}, T._serializer)
                bad = True
            elif op == "bad":
                logger.write({"message_type": "c14:h", "n": "x", "task_uuid": "u", "task_level": [1], "timestamp": 1.0}, T._serializer)
                bad = True
            elif op == "validate":
                try:
                    logger.validate()
                    if bad:
                        return "validate-accepted-invalid-message-midway", None
                except (ValidationError, TypeError):
                    if not bad:
                        return "validate-rejected-valid-messages-midway", None
            elif op == "reset":
                logger.reset()
                bad = tbs = False
            elif op == "tb":
                try:
                    raise AppError("h")
                except AppError:
                    write_traceback(logger)
                tbs = True
            elif op == "flush":
                logger.flush_tracebacks(AppError)
                tbs = False
        try:
            check_for_errors(logger)
            got = "accepted"
        except UnflushedTracebacks:
            got = "unflushed"
        except (ValidationError, TypeError):
            got = "invalid"
        want = "unflushed" if tbs else ("invalid" if bad else "accepted")
        return None if got == want else "history:%s-instead-of-%s" % (got, want), (got, want)

    sig, detail = world.run_isolated(go)
    viol = [(sig, {"ops": ops, "got_want": detail})] if sig else []
    return Result(outcome=[ops, sig], nontrivial=len(ops) > 1, violations=viol)


def deviations(defn, kind):
    """(name, field index or extra name, detail)"""
    out = [("none", None)]
    declared = kind in ("message", "start", "success")
    if declared:
        for i in range(len(defn)):
            out.append(("missing", i))
            out.append(("bad-value", i))
        for nm in EXTRA_NAMES:
            out.append(("extra", nm))
        out.append(("unencodable-extra", "extra"))
        out.append(("non-text-key", None))
    elif kind in ("failure", "traceback"):
        out.append(("missing", "reason"))
        out.append(("missing", "exception"))
        if kind == "failure":
            out.append(("wrong-type", "reason"))  # the traceback type's reason field accepts anything
        out.append(("extractor-extra-ok", None))  # extra extractor fields are allowed: NOT a deviation
        out.append(("unencodable-extra", "extra"))
        out.append(("non-text-key", None))
    else:
        out.append(("unencodable-extra", "extra"))
        out.append(("non-text-key", None))
    return out


def cases(unit, tier):
    if unit[0] == "histories":
        for n in (1, 2, 3, 4) if tier == "quick" else (1, 2, 3, 4, 5):
            for seq in itertools.product(HIST_OPS, repeat=n):
                # validate() serializes the stored messages in place (documented side effect), so it
                # is not meant to be run twice over the same messages: a validate() inside a history
                # is always followed by reset()
                if any(op == "validate" and (i + 1 >= len(seq) or seq[i + 1] != "reset") for i, op in enumerate(seq)):
                    continue
                yield ["hist", list(seq)]
        return
    if unit[0] == "tests":
        for outcome in range(len(OUTCOMES)):
            for prev in (0, 1):
                for arrangement in ("single", "sequence", "nested"):
                    for deco in ("capture", "validate"):
                        yield ["test", outcome, prev, arrangement, deco]
        return
    defn = unit[1]
    for kind in KINDS:
        for dev in deviations(defn, kind):
            for tb in ("none", "flushed", "unflushed", "flushed-other"):
                if tb != "none" and dev[0] not in ("none", "missing"):
                    continue
                yield ["msg", defn, kind, list(dev), tb]


def run_msg(defn, kind, dev, tb):
    names = ["f%d" % i for i in range(len(defn))]
    fields = [FIELD_KINDS[k][1](names[i]) for i, k in enumerate(defn)]
    good = {names[i]: FIELD_KINDS[k][2] for i, k in enumerate(defn)}
    bad = {names[i]: FIELD_KINDS[k][3] for i, k in enumerate(defn)}
    MT = MessageType("c14:msg", list(fields), "")
    AT = ActionType("c14:act", list(fields), list(fields), "")
    dname, darg = dev
    viol = []

    def go():
        logger = MemoryLogger()
        register_exception_extractor(AppError, lambda e: {"app_code": 7})
        base = {"task_uuid": "u", "task_level": [1], "timestamp": 1.5}
        conforming_via_api = dname == "none"
        expect_invalid = dname not in ("none", "extractor-extra-ok", "bytes-key-utf8-ok")
        if conforming_via_api:
            # produced by correct use of the declared type through the library
            if kind == "message":
                _log_typed(MT, logger, good)
            elif kind == "start":
                a = AT(logger, **good)
                a.add_success_fields(**good)
                a.finish()
            elif kind == "success":
                with AT(logger, **good) as a:
                    a.add_success_fields(**good)
            elif kind == "failure":
                try:
                    with AT(logger, **good):
                        raise AppError("boom")
                except AppError:
                    pass
            elif kind == "traceback":
                try:
                    raise AppError("tb")
                except AppError:
                    write_traceback(logger)
                logger.flush_tracebacks(AppError)
            else:
                with start_action(logger, "c14:untyped", k=[1, {"a": None}]):
                    pass
        else:
            # hand-built message with exactly one deviation
            if kind == "message":
                d, ser = dict(base, message_type="c14:msg", **good), MT._serializer
            elif kind == "start":
                d, ser = dict(base, action_type="c14:act", action_status="started", **good), AT._serializers.start
            elif kind == "success":
                d, ser = dict(base, action_type="c14:act", action_status="succeeded", **good), AT._serializers.success
            elif kind == "failure":
                d, ser = dict(base, action_type="c14:act", action_status="failed", reason="r", exception="m.E"), AT._serializers.failure
            elif kind == "traceback":
                d, ser = dict(base, message_type="eliot:traceback", reason="r", exception=ValueError, traceback="tb"), TRACEBACK_MESSAGE._serializer
            else:
                d, ser = dict(base, message_type="c14:untyped"), None
            if dname == "missing":
                del d[names[darg] if isinstance(darg, int) else darg]
            elif dname == "bad-value":
                d[names[darg]] = bad[names[darg]]
            elif dname == "wrong-type":
                d[darg] = 5
            elif dname == "extra":
                if darg in d:
                    return None  # that name is already a declared/standard field of this kind
                d[darg] = "x"
            elif dname == "extractor-extra-ok":
                d["errno"] = 5
            elif dname == "unencodable-extra":
                d["extra"] = Rejected()
            elif dname == "non-text-key":
                d[5] = "x"
            elif dname == "bytes-key-utf8-ok":
                d[b"caf\xc3\xa9"] = 1
            elif dname == "bytes-key-not-utf8":
                d[b"\xff"] = 1
            logger.write(d, ser)
            if kind == "traceback":
                # the hand-built traceback message is under test for validation only
                logger.tracebackMessages = []
        # tracebacks
        if tb != "none":
            try:
                raise AppError("unexpected")
            except AppError:
                write_traceback(logger)
            if tb == "flushed":
                got = logger.flush_tracebacks(AppError)
                if len(got) != 1:
                    viol.append(("flush_tracebacks-result", {"got": len(got)}))
            elif tb == "flushed-other":
                got = logger.flush_tracebacks(OtherError)
                if got:
                    viol.append(("flush_tracebacks-flushed-foreign-class", {"got": len(got)}))
        expect_tb = tb in ("unflushed", "flushed-other")
        try:
            check_for_errors(logger)
            outcome = "accepted"
        except UnflushedTracebacks:
            outcome = "unflushed"
        except (ValidationError, TypeError) as e:
            outcome = "invalid"
        except Exception as e:
            outcome = "other:" + type(e).__name__
        want = "unflushed" if expect_tb else ("invalid" if expect_invalid else "accepted")
        return outcome, want

    r = world.run_isolated(go)
    if r is None:
        return Result(outcome="n/a", nontrivial=False)
    outcome, want = r
    if outcome != want:
        viol.append(
            (
                "validation-%s:%s:%s" % ("missed" if outcome == "accepted" else ("false-positive" if want == "accepted" else "wrong-error"), kind, dname if dname != "extra" else "extra-" + str(darg)),
                {"definition": [FIELD_KINDS[k][0] for k in defn], "kind": kind, "deviation": dev, "tracebacks": tb, "got": outcome, "want": want},
            )
        )
    return Result(outcome=[kind, dev, tb, outcome], nontrivial=dname != "none" or tb != "none", violations=viol)


def _log_typed(MT, logger, good):
    # MessageType.log goes to the default logger: make `logger` the default for this call
    prev = swap_logger(logger)
    try:
        MT.log(**good)
    finally:
        swap_logger(prev)


OUTCOMES = ["pass", "fail", "error", "skip", "assertion-callback-fails", "invalid-message",
            "pass-after-reswapping-logger", "error-after-reswapping-logger",
            "invalid-message-in-cleanup", "unflushed-traceback-in-cleanup"]
TYPED = MessageType("c14:t", [Field.for_types("n", [int], "")], "")


def run_test(outcome, prev_kind, arrangement, deco):
    viol = []

    def go():
        original = _output._DEFAULT_LOGGER
        other = MemoryLogger()
        if prev_kind == 1:
            swap_logger(other)
        before = _output._DEFAULT_LOGGER
        seen_inside = []

        def assertion(test, logger):
            if OUTCOMES[outcome] == "assertion-callback-fails":
                test.fail("assertion callback")

        decorator = capture_logging(assertion) if deco == "capture" else validate_logging(assertion)

        def body(test, logger):
            seen_inside.append((_output._DEFAULT_LOGGER is logger, isinstance(logger, MemoryLogger)))
            if deco == "capture":
                log_message("c14:inside", n=1)
                if not logger.messages and arrangement != "nested":
                    viol.append(("capture_logging-did-not-capture", {}))
            else:
                logger.write({"message_type": "c14:inside", "task_uuid": "u", "task_level": [1], "timestamp": 1.0})
            o = OUTCOMES[outcome]
            if o.endswith("after-reswapping-logger") and deco == "capture":
                # the test installs its own default logger and leaves without putting the captured one back
                swap_logger(MemoryLogger())
                if o.startswith("error"):
                    raise RuntimeError("test error")
            if o == "invalid-message-in-cleanup":
                # a clean-up registered by the test itself is part of the test: what it logs is captured too
                if deco == "capture":
                    test.addCleanup(lambda: TYPED.log(n="not int"))
                else:
                    test.addCleanup(lambda: logger.write({"message_type": "c14:t", "n": "not int", "task_uuid": "u", "task_level": [1], "timestamp": 1.0}, TYPED._serializer))
            if o == "unflushed-traceback-in-cleanup":
                def failing_cleanup():
                    try:
                        raise AppError("in cleanup")
                    except AppError:
                        if deco == "capture":
                            write_traceback()
                        else:
                            write_traceback(logger)
                test.addCleanup(failing_cleanup)
            if o == "fail":
                test.fail("expected failure")
            if o == "error":
                raise RuntimeError("test error")
            if o == "skip":
                raise unittest.SkipTest("skipped")
            if o == "invalid-message":
                logger.write({"message_type": "c14:t", "n": "not int", "task_uuid": "u", "task_level": [1], "timestamp": 1.0}, TYPED._serializer)

        class T(unittest.TestCase):
            @decorator
            def test_one(self, logger):
                body(self, logger)

            @decorator
            def test_two(self, logger):
                body(self, logger)

            @decorator
            def test_outer(self, logger):
                inner_before = _output._DEFAULT_LOGGER
                T("test_one").test_one.__wrapped__ if False else None
                # nested: a decorated helper invoked from inside a decorated test
                # (the helper's swap is undone by a cleanup at the end of the test, by design;
                # only the state after the test is demanded)
                self.helper()
                body(self, logger)

            @decorator
            def helper(self, logger):
                seen_inside.append((_output._DEFAULT_LOGGER is logger, True))

        names = {"single": ["test_one"], "sequence": ["test_one", "test_two"], "nested": ["test_outer"]}[arrangement]
        suite = unittest.TestSuite([T(n) for n in names])
        result = unittest.TestResult()
        suite.run(result)
        after = _output._DEFAULT_LOGGER
        counts = {
            "run": result.testsRun,
            "failures": len(result.failures),
            "errors": len(result.errors),
            "skipped": len(result.skipped),
        }
        restored = after is before
        # put things back for the next case
        _output._DEFAULT_LOGGER = original
        return restored, counts, seen_inside, [str(e[1])[-300:] for e in result.errors[:1]]

    restored, counts, seen_inside, errs = world.run_isolated(go)
    o = OUTCOMES[outcome]
    n = 2 if arrangement == "sequence" else 1
    if not restored:
        viol.append(("default-logger-not-restored:" + o, {"arrangement": arrangement, "previous": prev_kind, "decorator": deco}))
    if deco == "capture" and arrangement != "nested" and not all(x[0] for x in seen_inside):
        viol.append(("default-logger-not-swapped-inside-test", {"seen": seen_inside}))
    want = {
        "pass": (0, 0, 0),
        "fail": (n, 0, 0),
        "error": (0, n, 0),
        "skip": (0, 0, n),
        "assertion-callback-fails": (n, 0, 0),
        "invalid-message": (0, n, 0),
        "pass-after-reswapping-logger": (0, 0, 0),
        "error-after-reswapping-logger": (0, n if deco == "capture" else 0, 0),
        "invalid-message-in-cleanup": (0, n, 0),
        "unflushed-traceback-in-cleanup": (0, n, 0),
    }[o]
    got = (counts["failures"], counts["errors"], counts["skipped"])
    if arrangement == "nested":
        # two assertion callbacks / two validations run for one test: only non-passing vs passing is demanded
        if (sum(got) > 0) != (sum(want) > 0):
            viol.append(("test-outcome:" + o, {"got": counts, "arrangement": arrangement, "decorator": deco}))
    elif got != want or counts["run"] != n:
        viol.append(("test-outcome:" + o, {"got": counts, "want": want, "arrangement": arrangement, "decorator": deco, "errors": errs}))
    return Result(outcome=[o, prev_kind, arrangement, deco, counts, restored], nontrivial=o != "pass", violations=viol[:3])


def run_case(case):
    if case[0] == "hist":
        return run_history(case[1])
    if case[0] == "msg":
        return run_msg(case[1], case[2], case[3], case[4])
    return run_test(case[1], case[2], case[3], case[4])
