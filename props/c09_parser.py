"""
C09 - parsing is order independent and detects completeness exactly.

Engine LAT: for each message set produced by running a real program, the whole
subset lattice is explored with the real Parser (vkit/lat.py).  Every
permutation of arrival order is a path in that lattice and every subset (=
every pattern of missing messages) is a state, so confluence of all
transitions decides order independence for all n! orders by induction.
"""

import itertools

from vkit import progs, lat
from vkit.runner import Result
from eliot.parse import Parser

ID = "C09"
LEVEL = "model_checking"
RULE = (
    "message sets = output of every program (forests <= N nodes x <= k deviations over action "
    "style {with, start_task, remote immediate, remote deferred, log_call}, exit {ok, failed, "
    "propagating failure}, message at top level); per set all 2^n subsets are states and all "
    "n*2^(n-1) single-message arrivals are transitions; non-trivial = set with >= 3 messages"
)
ASSUMPTIONS = [
    "well-formed tasks only: no duplicate (task_uuid, task_level), no malformed levels",
    "message sets up to the stated size; field values irrelevant to the parser are defaults",
]

SCHEMA = {
    "m": [("kf", 2)],  # kf: the message has a field named action_status
    "a": [("style", 8), ("exit", 4), ("at", 2), ("kf", 2)],  # at: app:X or the empty default type; kf: start/success field named message_type
}
# exits used: 0 ok, 1 ValueError caught outside, 2 OSError, 3 Custom ; propagation
# via EXITS index 12 (up=99) is added through "exit2"
EXIT_MAP = [0, 1, 12, 11]  # ok, caught here, propagate to top, caught one level up
STYLE_OK = (0, 3, 4, 6, 7)


def BOUNDS(tier):
    if tier == "quick":
        return {"max_nodes": 4, "devs": {1: 3, 2: 3, 3: 2, 4: 1}, "max_msgs": 7}
    return {"max_nodes": 5, "devs": {1: 3, 2: 4, 3: 3, 4: 2, 5: 1}, "max_msgs": 9}


def wide_programs():
    """An action with many children; sub-actions sit at positions whose decimal renderings are
    prefixes of one another (2 / 20 / 21, 1 / 10 / 11, 3 / 30)."""
    out = []
    for n, subs in ((22, (0, 18, 19)), (31, (1, 28)), (12, (0, 8, 9))):  # positions (2, 20, 21), (3, 30), (2, 10, 11)
        kids = []
        for i in range(n):
            if i in subs:
                kids.append(["a", {}, [["m", {}], ["a", {}, []]]])
            else:
                kids.append(["m", {}])
        out.append([["a", {}, kids]])
    return out


def run_wide(p):
    """Too many messages for the lattice: arrival orders = emission, reverse, every rotation, and
    'each sub-tree first / last'."""
    it, raw, seen = progs.run_to_file(p)
    msgs = progs.parse_lines(raw)
    n = len(msgs)
    orders = [msgs, msgs[::-1]] + [msgs[r:] + msgs[:r] for r in range(1, n)]
    deep = [m for m in msgs if len(m["task_level"]) > 1]
    groups = {}
    for m in deep:
        groups.setdefault(m["task_level"][0], []).append(m)
    for g in groups.values():
        rest = [m for m in msgs if m not in g]
        orders += [g + rest, rest + g, g[::-1] + rest[::-1]]
    ks = sorted(groups)
    for a in ks:
        for b in ks:
            if a != b:
                rest = [m for m in msgs if m not in groups[a] and m not in groups[b]]
                orders.append(groups[b] + groups[a] + rest)
    viol = []
    ref = None
    for order in orders:
        try:
            tasks = list(Parser.parse_stream(order))
        except Exception as e:
            viol.append(("wide:parse_stream-raised", {"error": repr(e)[:200]}))
            break
        if len(tasks) != 1 or not tasks[0].is_complete():
            viol.append(("wide:complete-task-not-reported-complete", {"tasks": len(tasks), "children": len(p[0][2])}))
            break
        tree = progs.from_written(tasks[0].root())
        if ref is None:
            ref = tree
        elif tree != ref:
            viol.append(("wide:order-dependent-tree", {"children": len(p[0][2])}))
            break
    return Result(outcome=[n, len(orders)], states=len(orders), transitions=len(orders) * n,
                  executions=len(orders), violations=viol[:2], extra={"wide_orders_parsed": len(orders)})


def units(tier):
    b = BOUNDS(tier)
    out = [["wide", i] for i in range(len(wide_programs()))]
    for n in range(1, b["max_nodes"] + 1):
        ns = sum(1 for _ in progs.forests(n))
        for si in range(ns):
            out.append([n, si])
    return out


def _valid(p):
    for nd in progs.walk(p):
        if nd[0] == "a" and nd[1].get("style", 0) not in STYLE_OK:
            return False
    return progs.valid_default(p)


def cases(unit, tier):
    if unit[0] == "wide":
        yield ["wide", wide_programs()[unit[1]]]
        return
    n, si = unit
    b = BOUNDS(tier)
    for i, sh in enumerate(progs.forests(n)):
        if i == si:
            shape = sh
            break
    for p in progs.deviate(shape, b["devs"][n], SCHEMA, _valid):
        nmsgs = sum(2 if x[0] == "a" else 1 for x in progs.walk(p))
        if nmsgs <= b["max_msgs"]:
            yield p


def _translate(p):
    q = progs.clone(p)
    for nd in progs.walk(q):
        if nd[0] == "a" and "exit" in nd[1]:
            nd[1]["exit"] = EXIT_MAP[nd[1]["exit"]]
        if nd[0] == "a" and nd[1].get("at"):
            nd[1]["at"] = 2  # the empty action type
    return q


def messages_of(p):
    it, raw, seen = progs.run_to_file(_translate(p))
    if it.problems:
        raise RuntimeError("interpreter problem: %r" % (it.problems,))
    return progs.parse_lines(raw), it


def _has_root(t):
    try:
        t.root()
        return True
    except Exception:
        return False


def run_case(p):
    if p and p[0] == "wide":
        return run_wide(p[1])
    msgs, it = messages_of(p)
    n = len(msgs)
    states, transitions, viol, completions = lat.subset_lattice(msgs)
    # parse_stream: full set in three orders, and every one-missing subset
    uu = {}
    for m in msgs:
        uu.setdefault(m["task_uuid"], []).append(m)
    orders = [msgs, msgs[::-1], msgs[n // 2:] + msgs[: n // 2]]
    execs = 0
    for order in orders:
        execs += 1
        try:
            # consume lazily: a completed task must be yielded as soon as its last message was read
            consumed = [0]

            def feed(order=order):
                for m in order:
                    consumed[0] += 1
                    yield m

            tasks = []
            last_pos = {}
            for i, m in enumerate(order):
                last_pos[m["task_uuid"]] = i + 1
            for t in Parser.parse_stream(feed()):
                tasks.append(t)
                if t.is_complete() and consumed[0] != last_pos[t.root().task_uuid]:
                    viol.append(
                        (
                            "parse_stream-completed-task-yielded-late",
                            {"consumed": consumed[0], "last_message_at": last_pos[t.root().task_uuid]},
                        )
                    )
        except Exception as e:
            viol.append(("parse_stream-raised", {"error": repr(e)[:200]}))
            continue
        ids = [t.root().task_uuid for t in tasks]
        if sorted(ids) != sorted(uu):
            viol.append(("parse_stream-task-multiset", {"got": len(ids), "want": len(uu)}))
        if not all(t.is_complete() for t in tasks):
            viol.append(("parse_stream-full-set-incomplete", {}))
    # every subset (in emission order) for small sets: several tasks may be incomplete at once
    if n <= 6:
        for mask in range(1, (1 << n) - 1):
            sub = [m for i, m in enumerate(msgs) if mask >> i & 1]
            if len(sub) >= n - 1:
                continue  # covered below in two orders
            execs += 1
            try:
                tasks = list(Parser.parse_stream(sub))
            except Exception as e:
                viol.append(("parse_stream-raised", {"subset": [i for i in range(n) if mask >> i & 1], "error": repr(e)[:200]}))
                break
            present = {}
            for m in sub:
                present[m["task_uuid"]] = present.get(m["task_uuid"], 0) + 1
            if sorted(t.root().task_uuid if _has_root(t) else "?" for t in tasks) != sorted(present):
                viol.append(("parse_stream-task-multiset", {"subset": [i for i in range(n) if mask >> i & 1]}))
                break
            if any(t.is_complete() != (present[t.root().task_uuid] == len(uu[t.root().task_uuid])) for t in tasks):
                viol.append(("parse_stream-completeness", {"subset": [i for i in range(n) if mask >> i & 1]}))
                break
    for miss in range(n):
        sub = msgs[:miss] + msgs[miss + 1:]
        for order in (sub, sub[::-1]):
            execs += 1
            try:
                tasks = list(Parser.parse_stream(order))
            except Exception as e:
                viol.append(("parse_stream-raised", {"missing": miss, "error": repr(e)[:200]}))
                continue
            present = {}
            for m in sub:
                present[m["task_uuid"]] = present.get(m["task_uuid"], 0) + 1
            ids = [t.root().task_uuid for t in tasks]
            if sorted(ids) != sorted(present):
                viol.append(("parse_stream-task-multiset", {"missing": miss}))
                continue
            seen_incomplete = False
            for t in tasks:
                u = t.root().task_uuid
                want = present[u] == len(uu[u])
                if t.is_complete() != want:
                    viol.append(
                        ("parse_stream-completeness", {"missing": miss, "says": t.is_complete()})
                    )
                if not t.is_complete():
                    seen_incomplete = True
                elif seen_incomplete:
                    viol.append(("parse_stream-complete-after-incomplete", {"missing": miss}))
    outcome = [n, len(uu), states, transitions, completions, progs.shape_sig(it.forest)]
    return Result(
        outcome=outcome,
        nontrivial=n >= 3,
        states=states,
        transitions=transitions,
        executions=transitions + execs,
        violations=viol[:5],
        extra={"max_set_size": set([n]), "completion_events": completions},
    )
