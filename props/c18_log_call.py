"""
C18 - log_call is transparent: same result, same exceptions, faithful argument log.

Engine SEQ over inputs: generated function signatures (all five parameter
kinds, defaults, a name pool including eliot's own keyword names) x argument
lists (every way of passing 0-3 arguments positionally / by keyword, too few,
too many, unknown keyword, positional-only by keyword) x decorator options.
Oracle: differential against the undecorated function, and
inspect.signature(f).bind() for the logged arguments.
"""

import inspect
import itertools

from vkit import world
from vkit.runner import Result
from vkit.world import eliot

from eliot import log_call

ID = "C18"
LEVEL = "exploration"
SHARDS = 2
RULE = (
    "signatures = all valid sequences of <= 3 parameters over kinds {positional-only, positional-or-"
    "keyword, *var, keyword-only, **var} x default/no default, names x,y,z with at most one parameter "
    "renamed to one of {self, cls, logger, action_type, include_args, result, _serializers, f, args, kwargs, fields}; plain functions "
    "and methods; body returns a tuple of its locals (or raises); calls = all splits of 0..n+1 argument "
    "values into positional and keyword (by every parameter name) + an unknown keyword; options = "
    "{bare, action_type=, include_args= each subset (incl. self) and an invalid name, include_result=False}; plus one decorator "
    "factory applied to several functions and a function decorated before / called after the default logger is swapped; "
    "non-trivial = signature with >= 1 parameter"
)
ASSUMPTIONS = [
    "parameter names equal to reserved message fields (task_uuid, task_level, timestamp, action_status) are outside the alphabet: the statement speaks of eliot's keyword parameters",
    "<= 3 parameters",
]

KINDS = ["po", "pk", "va", "ko", "vk"]  # positional-only, pos-or-kw, *args, kw-only, **kwargs
SPECIAL = ["self", "logger", "action_type", "include_args", "result", "_serializers", "cls", "f", "args", "kwargs", "fields"]


class BodyError(Exception):
    pass


SENTINEL = object()


def signatures(max_params=3):
    """Yield (params, method?) with params = [(kind, name, has_default)]"""
    order = {"po": 0, "pk": 1, "va": 2, "ko": 3, "vk": 4}
    for n in range(0, max_params + 1):
        for kinds in itertools.product(KINDS, repeat=n):
            if list(kinds) != sorted(kinds, key=lambda k: order[k]):
                continue
            if kinds.count("va") > 1 or kinds.count("vk") > 1:
                continue
            defaultable = [i for i, k in enumerate(kinds) if k in ("po", "pk", "ko")]
            for dmask in itertools.product((0, 1), repeat=len(defaultable)):
                d = dict(zip(defaultable, dmask))
                # positional defaults must be trailing
                pos = [i for i, k in enumerate(kinds) if k in ("po", "pk")]
                seen_default = False
                ok = True
                for i in pos:
                    if d.get(i):
                        seen_default = True
                    elif seen_default:
                        ok = False
                if not ok:
                    continue
                base = ["x", "y", "z", "w"][:n]
                namings = [list(base)]
                for i in range(n):
                    for sp in SPECIAL:
                        if sp == "self" and (i != 0 or kinds[0] not in ("po", "pk")):
                            continue
                        nm = list(base)
                        nm[i] = sp
                        namings.append(nm)
                for names in namings:
                    yield [[kinds[i], names[i], d.get(i, 0)] for i in range(n)]


def render(params):
    parts = []
    seen_po = False
    star_done = False
    for i, (k, name, dflt) in enumerate(params):
        if k != "po" and seen_po and "/" not in parts:
            parts.append("/")
        if k == "po":
            seen_po = True
        if k == "ko" and not star_done:
            parts.append("*")
            star_done = True
        if k == "va":
            parts.append("*" + name)
            star_done = True
        elif k == "vk":
            parts.append("**" + name)
        else:
            parts.append(name + ("='d_%s'" % name if dflt else ""))
    if seen_po and "/" not in parts:
        parts.append("/")
    return ", ".join(parts)


def build(params, raises):
    names = [p[1] for p in params]
    body = "    raise BodyError('body')" if raises else "    return (SENTINEL, %s)" % "".join(n + ", " for n in names)
    src = "def f(%s):\n    '''doc of f'''\n%s\n" % (render(params), body)
    ns = {"BodyError": BodyError, "SENTINEL": SENTINEL}
    exec(src, ns)
    return ns["f"], src


def call_lists(params):
    """Argument lists: (args, kwargs) over values v0..; exhaustive for small n."""
    names = [p[1] for p in params if p[0] in ("po", "pk", "ko")]
    n = len(names)
    out = []
    vals = ["v0", None, "v2", "v3", "v4"]
    for npos in range(0, n + 2):
        if npos > 4:
            continue
        for kwn in range(0, n + 1):
            for kwnames in itertools.combinations(names, kwn):
                out.append((vals[:npos], {k: "k_" + k for k in kwnames}))
    out.append(([], {"unknown_kw": 1}))
    out.append((["v0"], {"unknown_kw": 1}))
    # dedupe
    uniq = []
    seen = set()
    for a, k in out:
        key = (tuple(a), tuple(sorted(k.items())))
        if key not in seen:
            seen.add(key)
            uniq.append((a, k))
    return uniq


def BOUNDS(tier):
    return {"max_params": 3 if tier == "quick" else 4}


_SIGS = {}


def sigs(tier="quick"):
    if tier not in _SIGS:
        _SIGS[tier] = list(signatures(BOUNDS(tier)["max_params"]))
    return _SIGS[tier]


def units(tier):
    n = len(sigs(tier))
    return [[i, min(i + 60, n)] for i in range(0, n, 60)] + [["meta"]]


def cases(unit, tier):
    if unit == ["meta"]:
        yield ["meta"]
        return
    for i in range(unit[0], unit[1]):
        yield ["sig", sigs(tier)[i]]


def outcome_of(fn, args, kwargs):
    try:
        r = fn(*args, **kwargs)
        return ("ret", r)
    except BodyError as e:
        return ("body", e)
    except TypeError as e:
        return ("TypeError", None)
    except BaseException as e:
        return ("other:" + type(e).__name__, repr(e))


def classify(params):
    names = [p[1] for p in params]
    for sp in ("logger", "action_type", "_serializers"):
        if sp in names:
            return "parameter-named-" + sp
    return None


def run_sig(params):
    viol = []
    nexec = 0
    is_method = bool(params) and params[0][1] == "self"
    special = classify(params)
    for raises in (0, 1):
        f, src = build(params, raises)
        pnames = [p[1] for p in params]
        option_sets = [("bare", {}), ("action_type", {"action_type": "custom:type"}), ("no_result", {"include_result": False})]
        for r in range(0, len(pnames) + 1):
            for sub in itertools.combinations(pnames, r):
                option_sets.append(("include_args", {"include_args": list(sub)}))
        for oname, opts in option_sets:
            try:
                g = log_call(f) if oname == "bare" else log_call(**opts)(f)
            except Exception as e:
                viol.append(("decorating-raised", {"src": src, "opts": opts, "error": repr(e)}))
                continue
            if g.__name__ != f.__name__ or g.__doc__ != f.__doc__:
                viol.append(("metadata-not-preserved", {"src": src}))
            try:
                if str(inspect.signature(g)) != str(inspect.signature(f)):
                    viol.append(("signature-not-preserved", {"src": src, "got": str(inspect.signature(g)), "want": str(inspect.signature(f))}))
            except Exception as e:
                viol.append(("signature-unavailable", {"src": src, "error": repr(e)}))
            for args, kwargs in call_lists(params):
                nexec += 1
                want = outcome_of(f, args, kwargs)

                def go():
                    seen = world.capture()
                    got = outcome_of(g, args, kwargs)
                    return got, list(seen)

                got, msgs = world.run_isolated(go)
                ctx = {"src": src, "opts": opts, "args": args, "kwargs": kwargs}
                if want[0] != got[0]:
                    sig = "outcome-differs:%s-vs-%s" % (want[0], got[0].split(":")[0])
                    if "self" in opts.get("include_args", ()):
                        sig += ":include_args-names-self"
                    if want[0] == "TypeError" and got[0] in ("ret", "body") and _posonly_by_keyword(params, kwargs):
                        sig = "positional-only:accepted-by-keyword"
                    elif want[0] in ("ret", "body") and got[0] == "TypeError" and _posonly_by_keyword(params, kwargs):
                        sig = "positional-only:name-reused-as-extra-keyword-rejected"
                    elif special:
                        sig += ":" + special
                    viol.append((sig, dict(ctx, want=want[0], got=repr(got)[:200])))
                    continue
                pk = _posonly_by_keyword(params, kwargs)
                if want[0] == "ret" and not (got[1] == want[1] and got[1][0] is SENTINEL):
                    sig = "positional-only:name-reused-as-extra-keyword-misbound" if pk else "return-value-differs"
                    viol.append((sig, dict(ctx, got=repr(got[1]), want=repr(want[1]))))
                    continue
                if want[0] == "body" and not isinstance(got[1], BodyError):
                    viol.append(("exception-differs", ctx))
                    continue
                if want[0] == "TypeError":
                    if msgs:
                        viol.append(("invalid-call-logged-something", dict(ctx, n=len(msgs))))
                    continue
                # logging
                exp_type = opts.get("action_type", "%s.%s" % (f.__module__, f.__qualname__))
                # the arguments as Python binds them: the non-raising twin returns its locals
                f0 = f if not raises else build(params, 0)[0]
                bound = f0(*args, **kwargs)[1:]
                exp_args = dict(zip([p[1] for p in params], bound))
                try:
                    ba = inspect.signature(f).bind(*args, **kwargs)
                    ba.apply_defaults()
                    if dict(ba.arguments) != exp_args:
                        raise RuntimeError("harness: bind() disagrees with the function's own locals")
                except TypeError:
                    pass  # bind() rejects some calls Python accepts (positional-only name reused in **kwargs)
                exp_args.pop("self", None)
                if "include_args" in opts:
                    exp_args = {k: exp_args[k] for k in opts["include_args"] if k in exp_args}
                if len(msgs) != 2:
                    viol.append(("message-count", dict(ctx, n=len(msgs))))
                    continue
                st, en = msgs
                meta = ("task_uuid", "task_level", "timestamp", "action_type", "action_status")
                got_args = {k: v for k, v in st.items() if k not in meta}
                if st.get("action_type") != exp_type or st.get("action_status") != "started":
                    sig = "start-message-type"
                    if special == "parameter-named-action_type":
                        sig += ":" + special
                    viol.append((sig, dict(ctx, got=st.get("action_type"), want=exp_type)))
                elif got_args != exp_args:
                    sig = "start-fields-differ-from-bound-arguments"
                    if pk:
                        sig = "positional-only:name-reused-as-extra-keyword-misbound"
                    elif special == "parameter-named-action_type":
                        sig += ":" + special
                    viol.append((sig, dict(ctx, got=repr(got_args), want=repr(exp_args))))
                got_end = {k: v for k, v in en.items() if k not in meta}
                if want[0] == "ret":
                    exp_end = {} if opts.get("include_result") is False else {"result": want[1]}
                    if en.get("action_status") != "succeeded" or got_end != exp_end:
                        viol.append(("end-message", dict(ctx, got=repr(got_end), status=en.get("action_status"))))
                else:
                    if en.get("action_status") != "failed" or got_end.get("exception") != "%s.BodyError" % BodyError.__module__:
                        viol.append(("end-message-failed", dict(ctx, got=repr(got_end))))
            if len(viol) > 200:
                best0 = {}
                for s_, d_ in viol:
                    best0.setdefault(s_, d_)
                viol = sorted(best0.items())
    # one violation per signature kind
    best = {}
    for s, d in viol:
        best.setdefault(s, d)
    return sorted(best.items()), nexec


def _posonly_by_keyword(params, kwargs):
    return any(k == "po" and n in kwargs for k, n, d in params)


def run_meta():
    viol = []

    def f(x, y=2):
        return x + y

    try:
        log_call(include_args=["nope"])(f)
        viol.append(("invalid-include_args-accepted", {}))
    except ValueError:
        pass

    import functools

    def injecting(fn):
        @functools.wraps(fn)
        def w(*a, **k):
            return fn("conn", *a, **k)

        return w

    def consuming(fn):
        @functools.wraps(fn)
        def w(*a, retries=1, **k):
            return fn(*a, **k)

        return w

    def g(conn, x, y=2):
        return (conn, x, y)

    def h(x):
        return ("h", x)

    for plain, calls in ((injecting(g), [((5,), {}), ((5,), {"y": 7}), ((), {"x": 1})]),
                         (consuming(h), [((3,), {}), ((3,), {"retries": 4}), ((), {"x": 2, "retries": 0})])):
        deco = log_call(plain)
        for a, k in calls:
            want = outcome_of(plain, a, k)
            got = world.run_isolated(lambda: outcome_of(deco, a, k))
            if want[0] != got[0] or (want[0] == "ret" and want[1] != got[1]):
                viol.append(("stacked-decorator:outcome-differs", {"fn": plain.__name__, "args": repr(a), "kwargs": repr(k),
                                                                   "want": repr(want)[:100], "got": repr(got)[:100]}))

    # log_call stacked on log_call: the outer layer must bind like the function itself
    def base(x, y=2, *rest, k=None):
        return (x, y, rest, k)

    twice = log_call(action_type="outer")(log_call(action_type="inner")(base))

    def go2():
        seen = world.capture()
        r = twice(1, 5, 6, k=7)
        return r, list(seen)

    r, msgs2 = world.run_isolated(go2)
    if r != (1, 5, (6,), 7):
        viol.append(("stacked-log_call:result", {"got": repr(r)}))
    outer_start = [m for m in msgs2 if m.get("action_type") == "outer" and m.get("action_status") == "started"]
    want_args = {"x": 1, "y": 5, "rest": (6,), "k": 7}
    if len(outer_start) != 1 or {k: v for k, v in outer_start[0].items() if k in want_args or k in ("args", "kwargs")} != want_args:
        viol.append(("stacked-log_call:outer-start-fields", {"got": repr(outer_start)[:300]}))

    # one decorator factory applied to several functions: each keeps its own
    # identity, also when an earlier one is called again after a later decoration
    for fopts in ({"include_result": False}, {"include_args": ["x"]}, {"action_type": "shared:type"}):
        deco = log_call(**fopts)

        def fa(x):
            return ("fa", x)

        def fb(x, y=3):
            return ("fb", x, y)

        class Kc(object):
            def fc(self, x):
                return ("fc", x)

        ga = deco(fa)
        gb = deco(fb)
        gc = deco(Kc.fc)
        kc = Kc()

        def go3():
            seen = world.capture()
            rs = [ga(1), gb(2), gc(kc, 3), ga(4), gb(5, y=6)]
            return rs, list(seen)

        rs, msgs3 = world.run_isolated(go3)
        if rs != [("fa", 1), ("fb", 2, 3), ("fc", 3), ("fa", 4), ("fb", 5, 6)]:
            viol.append(("shared-factory:results", {"opts": repr(fopts), "got": repr(rs)}))
        starts = [m for m in msgs3 if m.get("action_status") == "started"]
        want_t = [fopts.get("action_type", "%s.%s" % (q.__module__, q.__qualname__)) for q in (fa, fb, Kc.fc, fa, fb)]
        if [m.get("action_type") for m in starts] != want_t:
            viol.append(("shared-factory:action-types", {"opts": repr(fopts), "got": [m.get("action_type") for m in starts], "want": want_t}))
        want_f = [{"x": 1}, {"x": 2, "y": 3}, {"x": 3}, {"x": 4}, {"x": 5, "y": 6}]
        if "include_args" in fopts:
            want_f = [{"x": d["x"]} for d in want_f]
        got_f = [{k: v for k, v in m.items() if k in ("x", "y", "self")} for m in starts]
        if got_f != want_f:
            viol.append(("shared-factory:start-fields", {"opts": repr(fopts), "got": repr(got_f)}))

    # the default logger in force at the time of the *call* receives the action
    from eliot import MemoryLogger
    from eliot.testing import swap_logger

    def early(x):
        return x + 1

    g_early = log_call(early)

    def go4():
        seen = world.capture()
        out = []
        g_early(1)
        out.append(("default", len(seen), None))
        ml = MemoryLogger()
        prev = swap_logger(ml)
        try:
            g_late = log_call(action_type="late")(early)
            g_early(2)
            g_late(3)
        finally:
            swap_logger(prev)
        out.append(("swapped", len(seen), len(ml.messages)))
        g_early(4)
        g_late(5)
        out.append(("restored", len(seen), len(ml.messages)))
        return out

    got4 = world.run_isolated(go4)
    want4 = [("default", 2, None), ("swapped", 2, 4), ("restored", 6, 4)]
    if got4 != want4:
        viol.append(("logger-not-resolved-at-call-time", {"got": repr(got4), "want": repr(want4)}))

    class K(object):
        @log_call
        def m(self, a, b=1):
            "method doc"
            return (self, a, b)

    def go():
        seen = world.capture()
        k = K()
        r = k.m(5, b=6)
        return r[0] is k and r[1:] == (5, 6), list(seen)

    ok, msgs = world.run_isolated(go)
    if not ok:
        viol.append(("method-result", {}))
    if len(msgs) != 2 or {k: v for k, v in msgs[0].items() if k in ("a", "b", "self")} != {"a": 5, "b": 6}:
        viol.append(("method-start-fields", {"got": repr(msgs[:1])}))
    if msgs and not msgs[0].get("action_type", "").endswith("K.m"):
        viol.append(("method-default-action-type", {"got": msgs[0].get("action_type")}))
    return viol


def run_case(case):
    if case[0] == "meta":
        v = run_meta()
        return Result(outcome=["meta", len(v)], violations=v)
    viol, nexec = run_sig(case[1])
    return Result(
        outcome=[render(case[1]), [s for s, _ in viol]],
        nontrivial=len(case[1]) > 0,
        executions=nexec,
        violations=viol[:6],
    )
