"""
C13 - typed fields are serialized exactly once; serializer failures are contained.

Engine SEQ+FLT over type definitions: 1-3 declared fields x serializer alphabet
{identity, wrap (non-idempotent), str, raising} x value pool x message kind
{MessageType.log, ActionType start, ActionType success end, failed end,
Logger.write(dict, serializer), Logger.write(dict)} x one declared field missing
x undeclared extra field x global fields x inside/outside a parent action.
Oracle: delivered dict = model, per-serializer call counters, deep snapshot and
identity of caller data, exact failure reporting and its placement.
"""

import copy
import itertools

from vkit import world
from vkit.runner import Result
from vkit.world import eliot

from eliot import MessageType, ActionType, Field, Logger, start_action, log_message

ID = "C13"
LEVEL = "exploration"
SHARDS = 4
CASE_TIMEOUT = 900
RULE = (
    "type definitions = every assignment of serializers {identity, wrap, str, raising, Field.for_types pass-through} to 1-3 declared "
    "fields (every failing subset arises as the set of raising serializers); x message kind (6) x "
    "missing declared field (none / each) x undeclared extra field (0/1) x global fields (0/1) x parent "
    "action (0/1); values cycle through {int, str, list, mutable dict, identity object}; non-trivial = "
    "definition with a non-identity serializer, a failure or a missing field"
)
ASSUMPTIONS = [
    "checked on Logger (the anchor); MemoryLogger documents in-place replacement on validate()",
    "serializer alphabet of 4 behaviours; values from a pool of 5",
]

SER = ["id", "wrap", "str", "raise", "for_types", "raise-BaseException-only"]
KINDS = ["message", "start", "success", "failed", "write+serializer", "write",
         "write+serializer, type field missing", "write+serializer, type field wrong",
         "deprecated MessageType()(...).write(action=explicit action)", "deprecated MessageType()(...).write(logger)"]


class Obj(object):
    def __repr__(self):
        return "<Obj>"


class SerBoom(Exception):
    pass


class SerBaseBoom(BaseException):
    """a failure class outside the Exception hierarchy (like CancelledError, GeneratorExit, SystemExit)"""


class AppError(Exception):
    pass


def BOUNDS(tier):
    return {"max_fields": 3 if tier == "quick" else 5}


def run_threads(bound, shard):
    """Two threads log a typed message whose serializer raises, through the shared default Logger:
    each failure must be reported (traceback + serialization_failure), whatever the interleaving."""
    from vkit import thr
    import eliot._output as _output

    def boom(v):
        raise SerBoom("x")

    BAD = MessageType("c13:bad", [Field("f", boom, "")], "")

    def setup(s):
        world.fresh()
        seen = world.capture()

        def body(who):
            return lambda: BAD.log(f=1, who=who)

        def observe(s):
            return sorted((m.get("message_type"), 1) for m in seen)

        return [("A", body("a")), ("B", body("b"))], observe

    viol = []
    execs = states = transitions = 0
    for x in thr.explore(setup, bound, trace_files=[_output.__file__], trace_funcs={"write", "send"}, shard=shard):
        execs += 1
        transitions += len(x.choices)
        states += 1 + len(x.choices)
        kinds = [k for k, _ in x.obs]
        if kinds.count("eliot:traceback") != 2 or kinds.count("eliot:serialization_failure") != 2 or "c13:bad" in kinds:
            viol.append(("concurrent-serialization-failures-not-all-reported",
                         {"got": kinds, "schedule": [c[3] for c in x.choices], "preemptions": x.preemptions}))
            break
        for t in x.sched.threads:
            if t.exc is not None:
                viol.append(("thread-raised", {"exc": repr(t.exc)}))
    return execs, states, transitions, viol


THR_SHARDS = 2

# histories: what an earlier logging call went through must not change how a later failure is contained
HIST_EVENTS = ["good", "bad", "missing", "bad-action-start", "bad+report-1-interrupted", "bad+report-2-interrupted",
               "bad-success+report-1-interrupted"]


class Interrupt(BaseException):
    """Raised by a destination while a failure report is delivered (like KeyboardInterrupt); the application survives it."""


def run_history(seq):
    def wrap(v):
        return {"ser": v}

    def boom(v):
        raise SerBoom("x")

    GOOD = MessageType("h:good", [Field("f", wrap, "")], "")
    BAD = MessageType("h:bad", [Field("f", boom, "")], "")
    BAD_START = ActionType("h:badstart", [Field("f", boom, "")], [], "")
    BAD_SUCCESS = ActionType("h:badsuccess", [], [Field("r", boom, "")], "")
    viol = []

    def go():
        seen = []
        eliot.add_destinations(seen.append)
        arm = {"left": 0}

        def interrupting(m):
            if arm["left"] and m.get("message_type", "").startswith("eliot:"):
                arm["left"] -= 1
                if arm["left"] == 0:
                    raise Interrupt()

        eliot.add_destinations(interrupting)
        for i, ev in enumerate(seq):
            name = HIST_EVENTS[ev]
            n0 = len(seen)
            arm["left"] = 1 if "report-1" in name else 2 if "report-2" in name else 0
            try:
                if name == "good":
                    GOOD.log(f=i)
                elif name == "missing":
                    GOOD.log(other=i)
                elif name == "bad-action-start":
                    with BAD_START(f=i):
                        pass
                elif name.startswith("bad-success"):
                    with BAD_SUCCESS() as a:
                        a.add_success_fields(r=i)
                else:
                    BAD.log(f=i)
            except Interrupt:
                pass
            except Exception as e:
                viol.append(("history:logging-call-raised", {"history": [HIST_EVENTS[e_] for e_ in seq], "at": i, "error": repr(e)[:200]}))
            faulted = arm["left"] == 0 and "interrupted" in name
            arm["left"] = 0
            new = seen[n0:]
            kinds = [m.get("message_type") or (m.get("action_type"), m.get("action_status")) for m in new]
            if "interrupted" in name:
                continue
            ntb, nsf = kinds.count("eliot:traceback"), kinds.count("eliot:serialization_failure")
            if name == "good":
                ok = kinds == ["h:good"] and new[0].get("f") == {"ser": i}
            elif name in ("bad", "missing"):
                ok = sorted(kinds) == ["eliot:serialization_failure", "eliot:traceback"]
            else:
                ok = ntb == 1 and nsf == 1 and ("h:badstart", "started") not in kinds and kinds.count(("h:badstart", "succeeded")) == 1
            if not ok:
                viol.append(("history:failure-not-contained-after-earlier-events",
                             {"history": [HIST_EVENTS[e_] for e_ in seq], "at": i, "event": name, "delivered": repr(kinds)[:200]}))
                break
        return len(seen)

    n = world.run_isolated(go)
    return Result(outcome=["history", n], nontrivial=len(seq) > 1, violations=viol[:2])


def DETERMINISM_REPLAY(case):
    return case[0] not in ("thr",)


def units(tier):
    out = [["thr", 1 if tier == "quick" else 2, k] for k in range(THR_SHARDS)]
    out.append(["history", 3 if tier == "quick" else 4])
    for n in (1, 2, 3) if tier == "quick" else (1, 2, 3, 4, 5):
        for sers in itertools.product(range(6), repeat=n):
            if n >= 3 and (sers.count(4) > 1 or sers.count(5) > 1):
                continue
            if n >= 4 and sers.count(3) + sers.count(5) > 2:
                continue
            if n == 5 and len(set(sers)) < 3:
                continue  # five fields of at most two behaviours: covered with four
            out.append(list(sers))
    return out


def cases(unit, tier):
    if unit and unit[0] == "thr":
        yield unit
        return
    if unit and unit[0] == "history":
        for n in range(1, unit[1] + 1):
            for seq in itertools.product(range(len(HIST_EVENTS)), repeat=n):
                yield ["history", list(seq)]
        return
    sers = unit
    n = len(sers)
    for kind in range(len(KINDS)):
        for missing in [None] + list(range(n)):
            for extra in (0, 1):
                for glob in (0, 1):
                    for parent in (0, 1):
                        if kind == 5 and (missing is not None or any(sers)):
                            continue  # write(dict) without serializer: definition irrelevant
                        if kind in (6, 7) and (missing is not None or any(s_ in (3, 5) for s_ in sers)):
                            continue
                        if kind in (8, 9) and (glob or extra):
                            continue
                        if kind == 3 and (missing is not None):
                            continue
                        yield [sers, kind, missing, extra, glob, parent]


def values():
    return [7, "text", [1, [2]], {"k": {"n": 1}}, Obj()]


def run_case(case):
    if case[0] == "history":
        return run_history(case[1])
    if case[0] == "thr":
        try:
            execs, states, transitions, viol = run_threads(case[1], (case[2], THR_SHARDS))
        finally:
            world.fresh()
        return Result(outcome=["thr", execs], executions=execs, violations=viol[:2], extra={"thr_schedules": execs})
    sers, kind, missing, extra, glob, parent = case
    n = len(sers)
    viol = []
    counters = [0] * n

    def mk(i, s):
        def f(v):
            counters[i] += 1
            if s == 0:
                return v
            if s == 1:
                return ["ser", v]
            if s == 2:
                return str(v)
            if s == 5:
                raise SerBaseBoom("field %d" % i)
            raise SerBoom("field %d" % i)

        return f

    names = ["f%d" % i for i in range(n)]
    pool = values()
    fields = [
        Field(names[i], mk(i, sers[i]), "")
        if sers[i] != 4
        else Field.for_types(names[i], [type(pool[i % len(pool)]) if not isinstance(pool[i % len(pool)], Obj) else dict], "")
        for i in range(n)
    ]
    MT = MessageType("c13:msg", list(fields), "")
    AT = ActionType("c13:act", list(fields), list(fields), "")
    vals = values()
    given = {names[i]: vals[i % len(vals)] for i in range(n) if i != missing}
    if extra:
        given["extra"] = vals[3] if n < 4 else 1
    snapshot = copy.deepcopy({k: v for k, v in given.items() if not isinstance(v, Obj)})
    identities = dict(given)
    expect_fail = ((missing is not None or any(s in (3, 5) for s in sers)) and kind in (0, 1, 2, 4, 8, 9)) or kind == 6

    def go():
        seen = []
        eliot.add_destinations(seen.append)
        second = []
        eliot.add_destinations(second.append)
        if glob:
            eliot.add_global_fields(gf="G")
        P = None
        raised = None
        caller_dict = None
        n_before = None
        n_after = None

        def act():
            nonlocal caller_dict, n_before, n_after
            n_before = len(seen)
            if kind == 0:
                MT.log(**given)
            elif kind == 1:
                a = AT(**given)
                n_after = len(seen)
                a.finish()
            elif kind == 2:
                with AT(**_complete()) as a:
                    # a valid start; the success fields are what is under test
                    for i in range(n):
                        counters[i] = 0
                    n_before = len(seen)
                    a.add_success_fields(**given)
                n_after = len(seen)
            elif kind == 3:
                try:
                    with AT(**_complete()) as a:
                        for i in range(n):
                            counters[i] = 0
                        n_before = len(seen)
                        a.add_success_fields(**given)
                        raise AppError("app")
                except AppError:
                    pass
                n_after = len(seen)
            elif kind == 4:
                caller_dict = dict(given, message_type="c13:msg", task_uuid="u", task_level=[1], timestamp=1.0)
                Logger().write(caller_dict, MT._serializer)
            elif kind == 8:
                explicit = start_action(action_type="c13:explicit")
                n_before = len(seen)
                MT(**given).write(action=explicit)
                n_after = len(seen)
                explicit.finish()
            elif kind == 9:
                MT(**given).write(Logger())
            elif kind == 6:
                caller_dict = dict(given, task_uuid="u", task_level=[1], timestamp=1.0)
                Logger().write(caller_dict, MT._serializer)
            elif kind == 7:
                caller_dict = dict(given, message_type="not:the:type", task_uuid="u", task_level=[1], timestamp=1.0)
                Logger().write(caller_dict, MT._serializer)
            else:
                caller_dict = dict(given, message_type="c13:plain", task_uuid="u", task_level=[1], timestamp=1.0)
                Logger().write(caller_dict)

        def _complete():
            # start fields that always serialize: use identity-safe values but the same serializers,
            # so a raising start serializer makes the action unusable -> give defaults and tolerate
            return {names[i]: vals[i % len(vals)] for i in range(n)}

        try:
            if parent:
                with start_action(action_type="c13:parent") as P:
                    act()
            else:
                act()
        except BaseException as e:
            raised = e
        return seen, second, P, raised, caller_dict, n_before, n_after

    seen, second, P, raised, caller_dict, n_before, n_after = world.run_isolated(go)
    if raised is not None:
        return Result(outcome="raised", violations=[("logging-call-raised", {"error": repr(raised), "case": case})])
    if [id(m) for m in seen] != [id(m) for m in second] and [m for m in seen] != [m for m in second]:
        viol.append(("destinations-saw-different-streams", {}))
    new = seen[n_before:n_after] if n_after is not None else seen[n_before:]
    new = [m for m in new if m.get("action_type") != "c13:parent"]
    # for kinds start/success the action also emits its other message(s); isolate what is under test
    start_bad = kind in (2, 3) and any(s in (3, 5) for s in sers)
    if start_bad:
        # the (valid-valued) start message itself cannot be serialized by a raising serializer:
        # this case only re-tests the start path; skip the success-specific oracle
        return Result(outcome=["start-unserializable", len(seen)], nontrivial=True, violations=viol)

    def is_report(m):
        return m.get("message_type") in ("eliot:traceback", "eliot:serialization_failure")

    if kind == 1:
        under_test = [m for m in new if m.get("action_status") == "started"]
        others = [m for m in new if m.get("action_status") != "started" and not is_report(m)]
    elif kind in (2, 3):
        under_test = [m for m in new if m.get("action_status") in ("succeeded", "failed")]
        others = []
    else:
        under_test = [m for m in new if not is_report(m) and m.get("action_type") not in ("c13:parent", "c13:explicit")]
        others = []
    if kind == 7 and len(under_test) == 1 and under_test[0].get("message_type") != "c13:msg":
        viol.append(("declared-type-field-not-serialized", {"case": case, "got": under_test[0].get("message_type")}))
    reports = [m for m in new if is_report(m)]
    meta = ("task_uuid", "task_level", "timestamp", "message_type", "action_type", "action_status", "gf")

    if expect_fail:
        if under_test:
            viol.append(("failed-serialization-message-still-delivered", {"case": case, "got": repr(under_test)[:300]}))
        kinds_seen = [m.get("message_type") for m in reports]
        if kinds_seen != ["eliot:traceback", "eliot:serialization_failure"]:
            viol.append(("failure-reports", {"case": case, "got": kinds_seen}))
        else:
            tb, sf = reports
            if not isinstance(sf.get("message"), str) or not isinstance(tb.get("traceback"), str):
                viol.append(("failure-report-content", {"case": case}))
            if parent and kind != 8:
                pl = world.action_level(P)
                if not (
                    tb["task_uuid"] == sf["task_uuid"] == P.task_uuid
                    and tb["task_level"][:-1] == pl
                    and sf["task_level"][:-1] == pl
                    and sf["task_level"][-1] == tb["task_level"][-1] + 1
                ):
                    viol.append(("failure-reports-placement", {"case": case, "tb": tb["task_level"], "sf": sf["task_level"], "parent": pl}))
            elif kind != 8:
                if tb["task_level"] != [1] or sf["task_level"] != [1] or tb["task_uuid"] == sf["task_uuid"]:
                    viol.append(("failure-reports-placement", {"case": case, "tb": tb["task_level"], "sf": sf["task_level"]}))
    else:
        if reports:
            viol.append(("unexpected-failure-reports", {"case": case, "got": [m.get("message_type") for m in reports]}))
        if len(under_test) != 1:
            viol.append(("delivered-count", {"case": case, "got": len(under_test)}))
        else:
            m = under_test[0]
            if kind == 3:
                want = {"exception": "%s.AppError" % AppError.__module__, "reason": "app"}
                got = {k: v for k, v in m.items() if k not in meta}
                if got != want:
                    viol.append(("failed-end-has-foreign-fields", {"case": case, "got": repr(got)}))
            else:
                want = {}
                for k, v in given.items():
                    if k in names and kind not in (5,):
                        s = sers[names.index(k)]
                        want[k] = v if s in (0, 4) else (["ser", v] if s == 1 else str(v))
                    else:
                        want[k] = v
                got = {k: v for k, v in m.items() if k not in meta}
                if repr(got) != repr(want) or set(got) != set(want):
                    viol.append(("delivered-fields-differ-from-model", {"case": case, "got": repr(got)[:300], "want": repr(want)[:300]}))
                else:
                    for k, v in want.items():
                        undeclared_or_identity = (k not in names) or kind == 5 or sers[names.index(k)] in (0, 4)
                        if undeclared_or_identity and got[k] is not identities[k]:
                            viol.append(("untouched-field-not-same-object", {"case": case, "field": k}))
                if kind != 5:
                    for i in range(n):
                        if sers[i] != 4 and counters[i] != 1:
                            viol.append(("serializer-call-count", {"case": case, "field": i, "calls": counters[i]}))
            if glob and m.get("gf") != "G":
                viol.append(("global-field-missing", {"case": case}))
    # caller data
    for k, v in identities.items():
        if isinstance(v, Obj):
            continue
        if v != snapshot[k]:
            viol.append(("caller-value-mutated", {"case": case, "field": k, "now": repr(v)[:100]}))
    if caller_dict is not None:
        wantd = dict(identities, task_uuid="u", task_level=[1], timestamp=1.0)
        if kind != 6:
            wantd["message_type"] = "not:the:type" if kind == 7 else caller_dict["message_type"]
        if set(caller_dict) != set(wantd) or any(caller_dict[k] is not wantd[k] and caller_dict[k] != wantd[k] for k in wantd):
            viol.append(("caller-dict-mutated", {"case": case, "now": sorted(caller_dict), "want": sorted(wantd)}))
        elif any(caller_dict[k] is not identities[k] for k in identities):
            viol.append(("caller-dict-values-replaced", {"case": case}))
    nontrivial = any(sers) or missing is not None
    return Result(
        outcome=[[m.get("message_type", m.get("action_status")) for m in new], counters],
        nontrivial=nontrivial,
        violations=viol[:4],
    )
