"""
C12 - startup buffering and (un)registration lose and duplicate no message.

Part 1 (engine LAT): breadth-first search over all sequences of
log / burst / add_destinations / remove_destination / add_global_fields
operations up to depth d, each transition executed on the real global
Destinations object through the public API, deduplicated on a canonical form
of the *real* object state, compared step by step with a list-based model.

Part 2 (engine THR, line granularity in eliot/_output.py): a logging thread
against the thread performing the first add_destinations (optionally a third
thread adding a global field), all schedules with <= p preemptions.
"""

import collections

from vkit import world, thr
from vkit.runner import Result
from vkit.world import eliot

import eliot._output as _output

ID = "C12"
CASE_TIMEOUT = 3600  # one case is a whole schedule exploration
LEVEL = "model_checking"
DETERMINISM_REPLAY = False  # BFS is deterministic by construction; THR verifies replay itself
RULE = (
    "part 1: all op sequences to depth d over {log, burst(999), burst(1001), burst(2001), add(d1), add(d2,d3), "
    "add(), remove(d1), remove(d2), global(k=v1), global(k=v2,j=w)} with <= 2 bursts, BFS on the real "
    "Destinations object, state = canonical (any_added, destination names, buffered message contents "
    "modulo serial renaming, global fields), transition = one public API call checked against the list "
    "model; part 2: threads L (1-2 log_message), R (first add_destinations of 1-2 destinations), "
    "optional G (add_global_fields), and with d1 already registered R performing a later add / a remove of d2, every schedule with <= p preemptions at line granularity in "
    "Destinations.send/add/addGlobalFields and BufferingDestination.__call__; non-trivial = every "
    "BFS state / every concurrent harness"
)
ASSUMPTIONS = [
    "registering the same callable twice is left out (it is then called twice by design)",
    "thread switches between source lines of eliot/_output.py; list.append/extend/iteration steps atomic",
]

OUT_FILE = _output.__file__
DESTS = world._DESTS

OPS = ["log", "b999", "b1001", "b2001", "add1", "add23", "add0", "rm1", "rm2", "g1", "g2"]


def BOUNDS(tier):
    if tier == "quick":
        return {"depth": 5, "max_bursts": 1, "preemptions": 2}
    return {"depth": 7, "max_bursts": 2, "preemptions": 3}


class Rec(object):
    def __init__(self, name):
        self.name = name
        self.got = []

    def __call__(self, m):
        self.got.append((m.get("serial"), tuple(sorted((k, v) for k, v in m.items() if k in ("k", "j")))))

    def __repr__(self):
        return self.name


class Model(object):
    def __init__(self):
        self.added = False
        self.dests = []
        self.buffer = []
        self.globals = {}
        self.recv = {"d1": [], "d2": [], "d3": []}
        self.serial = 0

    def log(self, n=1):
        for _ in range(n):
            self.serial += 1
            if not self.added:
                self.buffer.append(self.serial)
                if len(self.buffer) > 1000:
                    self.buffer.pop(0)
            else:
                g = tuple(sorted(self.globals.items()))
                for d in self.dests:
                    self.recv[d].append((self.serial, g))

    def add(self, *names):
        if not self.added:
            self.added = True
            self.dests = list(names)
            g = tuple(sorted(self.globals.items()))
            for s in self.buffer:
                for d in self.dests:
                    self.recv[d].append((s, g))
            self.buffer = []
        else:
            self.dests.extend(names)

    def remove(self, name):
        if name in self.dests:
            self.dests.remove(name)
            return True
        return False

    def glob(self, **f):
        self.globals.update(f)

    def canon(self):
        return (self.added, tuple(self.dests), len(self.buffer), tuple(sorted(self.globals.items())))


class Real(object):
    """The real global Destinations driven through the public API."""

    def __init__(self):
        world.fresh()
        self.d = {n: Rec(n) for n in ("d1", "d2", "d3")}
        self.serial = 0

    def log(self, n=1):
        for _ in range(n):
            self.serial += 1
            eliot.log_message("c12", serial=self.serial)

    def add(self, *names):
        eliot.add_destinations(*[self.d[n] for n in names])

    def remove(self, name):
        try:
            eliot.remove_destination(self.d[name])
            return True
        except ValueError:
            return False

    def glob(self, **f):
        eliot.add_global_fields(**f)

    def canon(self):
        """Structural canonical form of the real Destinations object, independent of the names of its
        private attributes: its attribute values in sorted-name order, destinations by their repr,
        lists of buffered messages run-length encoded modulo serial renaming."""

        def runs_of(buf):
            runs = []
            nxt = None
            for m in buf:
                key = tuple(sorted((k, v) for k, v in m.items() if k not in ("serial", "task_uuid", "timestamp")
                                   and k != "task_level")) + (("contig", nxt is None or m["serial"] == nxt),)
                nxt = m["serial"] + 1
                if runs and runs[-1][0] == key:
                    runs[-1][1] += 1
                else:
                    runs.append([key, 1])
            return tuple((k, n) for k, n in runs)

        def c(v):
            if isinstance(v, _output.BufferingDestination):
                return ("<buffer>", c(vars(v)))
            if isinstance(v, dict):
                return tuple(sorted((repr(k), c(x)) for k, x in v.items()))
            if isinstance(v, (list, tuple)) or type(v).__name__ == "deque":
                v = list(v)
                if v and all(isinstance(m, dict) and "serial" in m for m in v):
                    return ("messages", runs_of(v))
                return tuple(c(x) for x in v)
            return repr(v)

        return tuple(x for _, x in sorted((k, c(v)) for k, v in vars(DESTS).items()))


def find_buffer():
    """The BufferingDestination currently registered, if any (found by type, not by attribute name)."""
    for v in vars(DESTS).values():
        if isinstance(v, (list, tuple)):
            for x in v:
                if isinstance(x, _output.BufferingDestination):
                    return x
    return None


def apply(obj, op):
    if op == "log":
        return obj.log(1)
    if op == "b999":
        return obj.log(999)
    if op == "b1001":
        return obj.log(1001)
    if op == "b2001":
        return obj.log(2001)
    if op == "add1":
        return obj.add("d1")
    if op == "add23":
        return obj.add("d2", "d3")
    if op == "add0":
        return obj.add()
    if op == "rm1":
        return obj.remove("d1")
    if op == "rm2":
        return obj.remove("d2")
    if op == "g1":
        return obj.glob(k="v1")
    if op == "g2":
        return obj.glob(k="v2", j="w")
    raise ValueError(op)


def enabled(model, op, hist, max_bursts):
    if op in ("b999", "b1001", "b2001"):
        return sum(1 for h in hist if h in ("b999", "b1001", "b2001")) < max_bursts
    if op == "add1":
        return "d1" not in model.dests
    if op == "add23":
        return "d2" not in model.dests and "d3" not in model.dests
    return True


def build(hist):
    real, model = Real(), Model()
    for op in hist:
        apply(real, op)
        apply(model, op)
    return real, model


def compare(real, model, hist, rets):
    viol = []
    for n in ("d1", "d2", "d3"):
        got, want = real.d[n].got, model.recv[n]
        if got != want:
            gs, ws = [g[0] for g in got], [w[0] for w in want]
            if gs != ws:
                if sorted(gs) == sorted(ws):
                    kind = "order"
                elif len(set(gs)) != len(gs):
                    kind = "duplicate"
                elif set(gs) - set(ws):
                    kind = "delivered-to-wrong-destination-or-too-early"
                else:
                    kind = "lost"
            else:
                kind = "global-fields"
            viol.append(
                (
                    "sequential:" + kind,
                    {"dest": n, "history": hist, "got_len": len(got), "want_len": len(want),
                     "got_head": got[:3], "want_head": want[:3], "got_tail": got[-2:], "want_tail": want[-2:]},
                )
            )
    if rets is not None and rets[0] != rets[1]:
        viol.append(("sequential:remove-result", {"history": hist, "real": rets[0], "model": rets[1]}))
    return viol


def bfs(depth, max_bursts):
    real, model = build([])
    # states are merged only if the real object AND the model agree that they are the same state
    # (merging on the real state alone lets an implementation that wrongly merges states hide)
    seen = {(real.canon(), model.canon()): []}
    frontier = collections.deque([[]])
    transitions = 0
    viol = []
    maxd = 0
    while frontier:
        hist = frontier.popleft()
        if len(hist) >= depth:
            continue
        _, model0 = build(hist) if hist else (None, Model())
        for op in OPS:
            if not enabled(model0, op, hist, max_bursts):
                continue
            h2 = hist + [op]
            real, model = build(hist)
            r1 = apply(real, op)
            r2 = apply(model, op)
            transitions += 1
            v = compare(real, model, h2, (r1, r2) if op.startswith("rm") else None)
            if v:
                viol.extend(v)
                if len(viol) > 5:
                    return len(seen), transitions, maxd, viol
                continue
            k = (real.canon(), model.canon())
            if k not in seen:
                seen[k] = h2
                frontier.append(h2)
                maxd = max(maxd, len(h2))
    return len(seen), transitions, maxd, viol


# ---------------------------------------------------------------------------
# Part 2: concurrency around the hand-over

THR_HARNESSES = [
    {"logs": 1, "pre": 0, "add": ["d1"], "glob": False},
    {"logs": 2, "pre": 0, "add": ["d1"], "glob": False},
    {"logs": 1, "pre": 1, "add": ["d1"], "glob": False},
    {"logs": 2, "pre": 1, "add": ["d1", "d2"], "glob": False},
    {"logs": 1, "pre": 1, "add": ["d1"], "glob": True},
    {"logs": 2, "pre": 2, "add": ["d1"], "glob": False},
    # destinations already registered: a later add / a remove racing with the logging thread
    {"kind": "later-add", "logs": 2, "pre": 1},
    {"kind": "remove", "logs": 2, "pre": 1},
]
NSHARDS = 4


def run_thr_later(hi, bound, shard):
    """d1 is registered before the threads start.  Thread L logs; thread R adds d2 (later-add) or
    removes d2 (remove).  d1 must receive every message exactly once, in order; d2 a contiguous
    suffix (later-add) or prefix (remove) of L's messages, never a duplicate or a foreign message."""
    h = THR_HARNESSES[hi]
    funcs = {"send", "add", "remove", "__call__", "addGlobalFields"}

    def setup(s):
        real = Real()
        if h["kind"] == "later-add":
            real.add("d1")
        else:
            real.add("d1", "d2")
        real.log(h["pre"])

        def L():
            n = [h["pre"]]
            for _ in range(h["logs"]):
                n[0] += 1
                eliot.log_message("c12", serial=n[0])

        def R():
            if h["kind"] == "later-add":
                real.add("d2")
            else:
                real.remove("d2")

        def observe(s):
            return {"d1": [g[0] for g in real.d["d1"].got], "d2": [g[0] for g in real.d["d2"].got]}

        return [("L", L), ("R", R)], observe

    total = h["pre"] + h["logs"]
    want = list(range(1, total + 1))
    viol = []
    execs = states = transitions = 0
    by_pre = {}
    seen = set()
    for x in thr.explore(setup, bound, trace_files=[OUT_FILE], trace_funcs=funcs, shard=shard):
        execs += 1
        transitions += len(x.choices)
        states += 1 + len(x.choices)
        by_pre[x.preemptions] = by_pre.get(x.preemptions, 0) + 1
        seen.add(repr(x.obs))
        sched = [c[3] for c in x.choices]
        info = {"schedule": sched, "preemptions": x.preemptions, "harness": h, "obs": x.obs}
        if x.sched.deadlock:
            viol.append((h["kind"] + "-race:deadlock", info))
        for t in x.sched.threads:
            if t.exc is not None:
                viol.append((h["kind"] + "-race:thread-raised", dict(info, exc=repr(t.exc))))
        d1, d2 = x.obs["d1"], x.obs["d2"]
        if d1 != want:
            kind = "duplicated" if len(set(d1)) != len(d1) else ("reordered" if sorted(d1) == want else "lost")
            viol.append(("%s-race:registered-destination:%s" % (h["kind"], kind), info))
        pre = list(range(1, h["pre"] + 1))
        if h["kind"] == "later-add":
            ok = d2 == want[len(want) - len(d2):] and not (set(d2) & set(pre)) if d2 else True
        else:
            ok = d2 == want[: len(d2)] and d2[: len(pre)] == pre
        if not ok:
            viol.append(("%s-race:changing-destination:not-a-contiguous-%s" % (h["kind"], "suffix" if h["kind"] == "later-add" else "prefix"), info))
    best = {}
    for sig, d in viol:
        if sig not in best or d.get("preemptions", 9) < best[sig].get("preemptions", 9):
            best[sig] = d
    return execs, states, transitions, by_pre, seen, sorted(best.items())


def run_thr(hi, bound, shard):
    h = THR_HARNESSES[hi]
    funcs = {"send", "add", "__call__", "addGlobalFields"}

    def setup(s):
        real = Real()
        buffer0 = find_buffer()
        real.log(h["pre"])  # buffered before any thread starts

        def L():
            real_serial = [h["pre"]]
            for _ in range(h["logs"]):
                real_serial[0] += 1
                eliot.log_message("c12", serial=real_serial[0])

        def R():
            real.add(*h["add"])

        def G():
            eliot.add_global_fields(k="v1")

        bodies = [("L", L), ("R", R)] + ([("G", G)] if h["glob"] else [])

        def observe(s):
            # For each buffer append by L: could R's re-delivery loop still pick it up?
            # Lines execute between two consecutive line events of a thread, so the
            # append of L's k-th buffer call is done at L's *next* event after the
            # first line of BufferingDestination.__call__.  R's `for` loop over the
            # (live) buffer list sees an appended item iff R still has a later
            # line event on that `for` line.
            import linecache

            tids = {t.name: t.tid for t in s.threads}
            appends = []
            log = s.line_log
            first = None
            for i, (tid, fn, ln) in enumerate(log):
                if fn == "__call__" and tid == tids["L"]:
                    if first is None:
                        first = ln
                    if ln == first:
                        done_at = next((j for j in range(i + 1, len(log)) if log[j][0] == tids["L"]), len(log))
                        later_for = any(
                            t == tids["R"] and f == "add" and linecache.getline(OUT_FILE, l).strip().startswith("for ")
                            for t, f, l in log[done_at:]
                        )
                        appends.append("redelivery-loop-still-running" if later_for else "after-redelivery-loop-ended")
            return {
                "l_buffer_appends": appends,
                "recv": {n: [g[0] for g in real.d[n].got] for n in h["add"]},
                "globals": {n: [dict(g[1]).get("k") for g in real.d[n].got] for n in h["add"]},
                "detached_buffer": [m.get("serial") for m in buffer0.messages],
                "still_buffering": find_buffer() is not None,
            }

        return bodies, observe

    total = h["pre"] + h["logs"]
    want = list(range(1, total + 1))
    viol = []
    execs = states = transitions = 0
    by_pre = {}
    seen = set()
    for x in thr.explore(setup, bound, trace_files=[OUT_FILE], trace_funcs=funcs, shard=shard):
        execs += 1
        transitions += len(x.choices)
        states += 1 + len(x.choices)
        by_pre[x.preemptions] = by_pre.get(x.preemptions, 0) + 1
        seen.add(repr(x.obs["recv"]))
        sched = [c[3] for c in x.choices]
        if x.sched.deadlock:
            viol.append(("deadlock", {"schedule": sched}))
        for t in x.sched.threads:
            if t.exc is not None:
                viol.append(("thread-raised", {"thread": t.name, "exc": repr(t.exc)}))
        for n in h["add"]:
            got = x.obs["recv"][n]
            if got == want:
                continue
            sigs = []
            if len(set(got)) != len(got):
                sigs.append("first-add-race:duplicated")
            if set(got) - set(want):
                sigs.append("first-add-race:foreign-message")
            uniq = [m for i, m in enumerate(got) if m not in got[:i] and m in want]
            if sorted(uniq) != uniq:
                sigs.append("first-add-race:reordered")
            for m in sorted(set(want) - set(got)):
                if m <= h["pre"]:
                    sigs.append("first-add-race:lost-message-buffered-before-the-add")
                elif m in x.obs["detached_buffer"]:
                    # which of L's buffer appends was it, and where was R then?
                    j = x.obs["detached_buffer"].index(m) - h["pre"]
                    ph = x.obs["l_buffer_appends"][j] if 0 <= j < len(x.obs["l_buffer_appends"]) else "unknown"
                    sigs.append("first-add-race:lost:appended-to-detached-buffer:" + ph)
                else:
                    sigs.append("first-add-race:lost:sent-to-empty-destination-list")
            for sig in sorted(set(sigs)):
                viol.append(
                    (
                        sig,
                        {"dest": n, "got": got, "want": want, "schedule": sched,
                         "preemptions": x.preemptions, "harness": h},
                    )
                )
        if h["glob"]:
            pass  # a field set concurrently may or may not be on a message; nothing demanded
    # keep one example per signature, the one with fewest preemptions
    best = {}
    for sig, d in viol:
        if sig not in best or d.get("preemptions", 9) < best[sig].get("preemptions", 9):
            best[sig] = d
    return execs, states, transitions, by_pre, seen, sorted(best.items())


class ListRec(list):
    """A recording destination that is a list (like the BadDestination of eliot's own tests): two such
    destinations that have received the same messages compare equal without being the same object."""

    def __call__(self, m):
        self.append(m.get("n", m.get("message_type")))


SCENARIOS = ["equal-destinations-one-call", "equal-destinations-back-to-back", "destination-fails-during-backlog",
             "destination-removes-itself-during-backlog", "destination-removes-itself-while-live",
             "destination-registers-another-while-called"]


def run_scenario(name):
    """Destinations that are legal but unusual.  Returns violations."""
    viol = []

    def expect(what, got, want):
        if got != want:
            viol.append(("scenario:%s:%s" % (name, what), {"got": repr(got)[:200], "want": repr(want)}))

    def go():
        log = lambda n: eliot.log_message("s", n=n)
        if name == "equal-destinations-one-call":
            r1, r2 = ListRec(), ListRec()
            log(0), log(1)
            eliot.add_destinations(r1, r2)
            log(2)
            expect("first", list(r1), [0, 1, 2])
            expect("second", list(r2), [0, 1, 2])
        elif name == "equal-destinations-back-to-back":
            base = []
            eliot.add_destinations(lambda m: base.append(m["n"]))
            r1, r2 = ListRec(), ListRec()
            eliot.add_destinations(r1)
            eliot.add_destinations(r2)
            log(0), log(1)
            expect("first", list(r1), [0, 1])
            expect("second", list(r2), [0, 1])
            expect("base", base, [0, 1])
        elif name == "destination-fails-during-backlog":
            calls = []

            def failing(m):
                calls.append(m.get("n", m.get("message_type")))
                if m.get("n") == 1:
                    raise RuntimeError("cannot take this one")

            r = ListRec()
            log(0), log(1), log(2)
            try:
                eliot.add_destinations(failing, r)
            except Exception as e:
                viol.append(("scenario:%s:add_destinations-raised" % name, {"error": repr(e)}))
            log(3)
            expect("healthy-destination", [x for x in r if isinstance(x, int)], [0, 1, 2, 3])
            expect("failure-reports", [x for x in r if not isinstance(x, int)], ["eliot:destination_failure"])
            expect("failing-destination", [x for x in calls if isinstance(x, int)], [0, 1, 2, 3])
        elif name in ("destination-removes-itself-during-backlog", "destination-removes-itself-while-live"):
            got = []

            def once(m):
                eliot.remove_destination(once)
                got.append(m["n"])

            first, r = ListRec(), ListRec()
            if name.endswith("backlog"):
                log(0), log(1), log(2)
                eliot.add_destinations(first, once, r)
            else:
                eliot.add_destinations(first, once, r)
                log(0), log(1), log(2)
            expect("one-shot", got, [0])
            expect("registered-before-it", list(first), [0, 1, 2])
            expect("registered-after-it", list(r), [0, 1, 2])
        elif name == "destination-registers-another-while-called":
            late = ListRec()
            r0, r = ListRec(), ListRec()

            def adder(m):
                if m["n"] == 1:
                    eliot.add_destinations(late)

            eliot.add_destinations(r0, adder, r)
            log(0), log(1), log(2)
            expect("registered-before", list(r0), [0, 1, 2])
            expect("registered-after", list(r), [0, 1, 2])
            expect("added-while-message-1-was-delivered", list(late), [2])
        else:
            raise ValueError(name)

    try:
        world.run_isolated(go)
    except Exception as e:
        viol.append(("scenario:%s:registration-or-logging-call-raised" % name, {"error": repr(e)[:200]}))
    return viol


def units(tier):
    b = BOUNDS(tier)
    return [["scenario", i] for i in range(len(SCENARIOS))] + [["bfs", b["depth"], b["max_bursts"]]] + [
        ["thr", i, b["preemptions"], k] for i in range(len(THR_HARNESSES)) for k in range(NSHARDS)
    ]


def cases(unit, tier):
    yield unit


def run_case(case):
    if case[0] == "scenario":
        v = run_scenario(SCENARIOS[case[1]])
        return Result(outcome=["scenario", case[1], len(v)], nontrivial=True, violations=v[:3])
    if case[0] == "bfs":
        states, transitions, maxd, viol = bfs(case[1], case[2])
        world.fresh()
        return Result(
            outcome=[states, transitions, maxd],
            states=states,
            transitions=transitions,
            executions=transitions,
            violations=viol[:6],
            extra={"bfs_states": states, "bfs_transitions": transitions, "bfs_max_depth": maxd},
        )
    _, hi, bound, k = case
    if THR_HARNESSES[hi].get("kind") in ("later-add", "remove"):
        execs, states, transitions, by_pre, seen, viol = run_thr_later(hi, bound, (k, NSHARDS))
    else:
        execs, states, transitions, by_pre, seen, viol = run_thr(hi, bound, (k, NSHARDS))
    world.fresh()
    return Result(
        outcome=[execs, sorted(by_pre.items()), sorted(seen)],
        states=states,
        transitions=transitions,
        executions=execs,
        violations=viol,
        extra={
            "thr_schedules": execs,
            "thr_schedules_with_0_preemptions": by_pre.get(0, 0),
            "thr_schedules_with_1_preemption": by_pre.get(1, 0),
            "thr_schedules_with_2_preemptions": by_pre.get(2, 0),
            "thr_schedules_with_3_preemptions": by_pre.get(3, 0),
            "thr_distinct_delivery_outcomes": set(seen),
        },
    )


def sanity(summary, tier):
    x = summary["extra"]
    probs = []
    if x.get("bfs_states", 0) < 50:
        probs.append("BFS reached only %s states" % x.get("bfs_states"))
    if len(x.get("thr_distinct_delivery_outcomes", ())) < 5:
        probs.append("thread schedules all deliver the same thing: the hand-over never overlapped a send")
    return probs
