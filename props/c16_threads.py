"""
C16 - loggers are safe to write to from many threads at once.

Engine THR at source-line granularity in eliot/_output.py.  The lock used by
MemoryLogger (eliot._output.Lock) is replaced by a scheduler-aware lock with
the same semantics, so a blocked thread is simply not enabled.  Every schedule
with <= p preemptions is executed on real threads; the observed return values
and final logger state must equal those of some sequential order of the same
calls (brute force over all order-preserving merges, run on the real class).
"""

import itertools

from vkit import world, thr
from vkit.runner import Result
from vkit.world import eliot

import eliot._output as _output
from eliot._traceback import TRACEBACK_MESSAGE
from eliot import MessageType, Field, MemoryLogger, FileDestination

ID = "C16"
CASE_TIMEOUT = 3600  # one case is a whole schedule exploration
LEVEL = "model_checking"
DETERMINISM_REPLAY = False  # engine checks prefix replay + re-runs first/last schedule
RULE = (
    "harness = 2-3 real threads, each 1-3 calls (incl. a thread that carries on after its validate() raised) from {write(untyped), write(traceback serializer), "
    "write(typed serializer), validate, serialize, flush_tracebacks, reset} on one MemoryLogger, or "
    "1-2 messages each into one FileDestination; scheduling points = every source line of "
    "eliot/_output.py executed by a thread + lock operations; all schedules with <= p preemptions; "
    "states = nodes of the explored schedule tree, transitions = scheduling decisions taken; "
    "non-trivial = harness whose schedules produce > 1 distinct observation"
)
ASSUMPTIONS = [
    "switches happen between source lines of eliot/_output.py (the granularity the property names); "
    "C-level atomicity of list.append is trusted",
    "eliot._output.Lock replaced by a cooperative lock with identical semantics",
]

OUT_FILE = _output.__file__

TYPED = MessageType("c16:typed", [Field("v", lambda v: ["ser", v], "")], "")


def _msg(i, kind):
    base = {"task_uuid": "u", "task_level": [i], "timestamp": float(i)}
    if kind == "tb":
        base.update(
            message_type="eliot:traceback",
            reason=ValueError("r%d" % i),
            traceback="tb",
            exception=ValueError,
        )
        return base, TRACEBACK_MESSAGE._serializer
    if kind == "typed":
        base.update(message_type="c16:typed", v=i)
        return base, TYPED._serializer
    if kind == "badtyped":
        base.update(message_type="c16:typed")  # missing field -> validation failure recorded
        return base, TYPED._serializer
    base.update(message_type="plain")
    return base, None


# op alphabet: ("w", id, kind) | ("validate",) | ("serialize",) | ("flush",) | ("reset",)
MEM_HARNESSES = [
    [[("w", 1, "plain"), ("w", 2, "tb")], [("w", 3, "typed")]],
    [[("w", 1, "plain"), ("w", 2, "tb")], [("validate",)]],
    [[("w", 1, "typed"), ("w", 2, "tb")], [("serialize",)]],
    [[("w", 1, "plain"), ("w", 2, "tb")], [("flush",)]],
    [[("w", 1, "plain"), ("w", 2, "tb")], [("reset",)]],
    [[("w", 1, "badtyped"), ("w", 2, "tb")], [("validate",)]],
    [[("w", 1, "tb")], [("w", 2, "typed")], [("flush",)]],
    [[("w", 1, "plain")], [("w", 2, "tb")], [("reset",)]],
    [[("w", 1, "typed")], [("w", 2, "typed")], [("serialize",)]],
    [[("w", 1, "tb"), ("flush",)], [("w", 2, "tb"), ("flush",)]],
    [[("w", 1, "typed"), ("validate",)], [("w", 2, "badtyped")]],
    [[("w", 1, "plain"), ("reset",)], [("w", 2, "tb"), ("serialize",)]],
    # a validate() that raises (bad message written first) racing with two other threads
    [[("w", 1, "badtyped"), ("validate",)], [("w", 2, "tb")], [("reset",)]],
    # a thread carries on after its validate() raised: its later calls still exclude the other thread's
    [[("w", 1, "badtyped"), ("validate",), ("reset",)], [("w", 2, "tb"), ("flush",)]],
    [[("w", 1, "badtyped"), ("validate",), ("w", 3, "tb")], [("w", 2, "typed"), ("serialize",)]],
    # the logger is created by the first of the threads that use it (not by a thread that stays out of the way)
    ["created-by-first-thread", [[("w", 1, "tb"), ("flush",)], [("w", 2, "tb"), ("reset",)]]],
    ["created-by-first-thread", [[("w", 1, "typed"), ("w", 2, "tb")], [("w", 3, "plain"), ("serialize",)]]],
]
FILE_HARNESSES = [
    [[1, 2], [3]],
    [[1], [2], [3]],
    [[1, 2], [3, 4]],
    # typed messages sharing one (fresh) serializer, written through the plain Logger to a file destination
    ["typed", [[1], [2]]],
    ["typed", [[1, 2], [3]]],
    # a line larger than io.DEFAULT_BUFFER_SIZE next to small ones
    ["big", [[1], [2]]],
    ["big", [[2, 1], [3]]],
]
VALIDATION_FILE = eliot._validation.__file__


def BOUNDS(tier):
    if tier == "quick":
        return {"preemptions": 2, "mem_harnesses": len(MEM_HARNESSES), "file_harnesses": 3}
    return {"preemptions": 3, "mem_harnesses": len(MEM_HARNESSES), "file_harnesses": 3}


NSHARDS = 6


def units(tier):
    p = BOUNDS(tier)["preemptions"]
    return [["mem", i, p, k] for i in range(len(MEM_HARNESSES)) for k in range(NSHARDS)] + [
        ["file", i, p, k] for i in range(len(FILE_HARNESSES)) for k in range(NSHARDS)
    ]


def cases(unit, tier):
    yield unit


def _canon_msg(m):
    return sorted((k, repr(v)) for k, v in m.items())


def _apply(logger, op):
    try:
        if op[0] == "w":
            m, ser = _msg(op[1], op[2])
            return ["ret", repr(logger.write(m, ser))]
        if op[0] == "validate":
            return ["ret", repr(logger.validate())]
        if op[0] == "serialize":
            return ["ret", [_canon_msg(d) for d in logger.serialize()]]
        if op[0] == "flush":
            return ["ret", [m["task_level"][0] for m in logger.flush_tracebacks(ValueError)]]
        if op[0] == "reset":
            return ["ret", repr(logger.reset())]
    except Exception as e:
        return ["exc", type(e).__name__]
    raise ValueError(op)


def _validate_outcome(logger):
    # what validate() says, and whether it can say why (the failure texts are recorded at write time)
    try:
        logger.validate()
        out = "valid"
    except Exception as e:
        try:
            text = str(e)
        except Exception:
            text = "?"
        out = "%s:%s" % (type(e).__name__, "with-explanation" if text.strip() else "without-explanation")
    recorded = getattr(logger, "_failed_validations", None)  # finer, if eliot still keeps it under this name
    return [out, len(recorded) if isinstance(recorded, list) else None]


def _state(logger):
    return {
        "messages": [_canon_msg(m) for m in logger.messages],
        "serializers": [
            "tb" if s is TRACEBACK_MESSAGE._serializer else ("typed" if s is TYPED._serializer else repr(s))
            for s in logger.serializers
        ],
        "tracebacks": [m["task_level"][0] for m in logger.tracebackMessages],
        # validation failures recorded at write time, observed through the public API
        "failed": _validate_outcome(logger),
    }


def _merges(seqs):
    """All order-preserving merges of the per-thread op sequences, as lists of
    (thread index, op)."""
    idx = [0] * len(seqs)
    out = []

    def rec(cur):
        if all(idx[i] == len(seqs[i]) for i in range(len(seqs))):
            out.append(list(cur))
            return
        for i in range(len(seqs)):
            if idx[i] < len(seqs[i]):
                cur.append((i, seqs[i][idx[i]]))
                idx[i] += 1
                rec(cur)
                idx[i] -= 1
                cur.pop()

    rec([])
    return out


def sequential_outcomes(harness):
    """Observations of every sequential order, run on the real class."""
    outs = []
    for order in _merges(harness):
        _output.Lock = thr.CoopLock
        with thr.cooperative_primitives():
            logger = MemoryLogger()
        rets = [[] for _ in harness]
        for ti, op in order:
            rets[ti].append(_apply(logger, op))
        outs.append({"rets": rets, "state": _state(logger)})
    return outs


def run_mem(hi, bound, shard=(0, 1)):
    raw = MEM_HARNESSES[hi]
    by_thread = bool(raw) and raw[0] == "created-by-first-thread"
    if by_thread:
        raw = raw[1]
    harness = [[tuple(op) for op in t] for t in raw]
    world.fresh()
    seq = sequential_outcomes(harness)
    seq_keys = set(repr(o) for o in seq)

    def setup(s):
        _output.Lock = thr.CoopLock
        box = {}
        if not by_thread:
            with thr.cooperative_primitives():
                box["logger"] = MemoryLogger()
        rets = [[] for _ in harness]

        def body(ti):
            def f():
                if by_thread:
                    if ti == 0:
                        with thr.cooperative_primitives():
                            box["logger"] = MemoryLogger()
                    else:
                        s.block_until(lambda: "logger" in box, ("wait-for-logger",))
                for op in harness[ti]:
                    rets[ti].append(_apply(box["logger"], op))

            return f

        def observe(s):
            return {"rets": rets, "state": _state(box["logger"])}

        return [("T%d" % i, body(i)) for i in range(len(harness))], observe

    viol = []
    execs = states = transitions = 0
    by_pre = {}
    seen = set()
    for x in thr.explore(setup, bound, trace_files=[OUT_FILE], shard=shard):
        execs += 1
        transitions += len(x.choices)
        states += 1 + len(x.choices)
        by_pre[x.preemptions] = by_pre.get(x.preemptions, 0) + 1
        k = repr(x.obs)
        seen.add(k)
        sched = [c[3] for c in x.choices]
        if x.sched.deadlock:
            viol.append(("deadlock", {"threads": x.sched.deadlock, "schedule": sched}))
        elif x.sched.horizon_hit:
            viol.append(("livelock-horizon", {"schedule": sched[:50]}))
        for t in x.sched.threads:
            if t.exc is not None:
                viol.append(("thread-raised", {"thread": t.name, "exc": repr(t.exc)}))
        st = x.obs["state"]
        if len(st["messages"]) != len(st["serializers"]):
            viol.append(("messages-serializers-length", {"state": st, "schedule": sched}))
        elif k not in seq_keys:
            viol.append(
                (
                    "not-linearizable:" + _what(x.obs, seq),
                    {"observed": x.obs, "schedule": sched, "preemptions": x.preemptions},
                )
            )
        if len(viol) >= 3:
            break
    return execs, states, transitions, by_pre, seen, viol


def _what(obs, seq):
    st = obs["state"]
    for m, s in zip(st["messages"], st["serializers"]):
        mt = dict(m).get("message_type")
        want = {"'eliot:traceback'": "tb", "'c16:typed'": "typed"}.get(mt, "None")
        if s != want:
            return "message-paired-with-foreign-serializer"
    return "state-or-returns"


class RecFile(object):
    def __init__(self):
        self.calls = []

    def write(self, data):
        self.calls.append(data)

    def flush(self):
        pass


def run_file(hi, bound, shard=(0, 1)):
    harness = FILE_HARNESSES[hi]
    typed = harness[0] == "typed"
    big = harness[0] == "big"
    if typed or big:
        harness = harness[1]

    def pad(i):
        return "x" * (9000 if big and i == 1 else i)

    world.fresh()
    import json as _json

    def setup(s):
        f = RecFile()
        with thr.cooperative_primitives():
            dest = FileDestination(file=f)
        f.calls[:] = []
        if typed:
            world.fresh()
            eliot.add_destinations(dest)
            T = MessageType("c16:shared", [Field("id", lambda v: v, ""), Field("thread", lambda v: v, ""),
                                           Field("pad", lambda v: "<%s>" % v, "")], "")
            logger = eliot.Logger()

        def body(ti):
            def g():
                for i in harness[ti]:
                    if typed:
                        logger.write({"message_type": "c16:shared", "id": i, "thread": ti, "pad": "x" * i,
                                      "task_uuid": "u", "task_level": [i], "timestamp": float(i)}, T._serializer)
                    else:
                        dest({"id": i, "thread": ti, "pad": pad(i)})

            return g

        def observe(s):
            data = b"".join(f.calls)
            return {"writes": len(f.calls), "data": data.decode("utf-8").replace("x" * 9000, "<9000 x>")}

        return [("T%d" % i, body(i)) for i in range(len(harness))], observe

    viol = []
    execs = states = transitions = 0
    by_pre = {}
    seen = set()
    want = sorted(i for t in harness for i in t)
    for x in thr.explore(setup, bound, trace_files=[OUT_FILE, VALIDATION_FILE] if typed else [OUT_FILE],
                         trace_funcs={"write", "send", "__call__", "serialize"} if typed else None, shard=shard):
        execs += 1
        transitions += len(x.choices)
        states += 1 + len(x.choices)
        by_pre[x.preemptions] = by_pre.get(x.preemptions, 0) + 1
        seen.add(repr(x.obs))
        sched = [c[3] for c in x.choices]
        if x.sched.deadlock:
            viol.append(("deadlock", {"schedule": sched}))
        for t in x.sched.threads:
            if t.exc is not None:
                viol.append(("thread-raised", {"thread": t.name, "exc": repr(t.exc)}))
        data = x.obs["data"]
        lines = data.split("\n")
        ok = lines[-1] == ""
        got = []
        per_thread = {}
        if ok:
            for l in lines[:-1]:
                try:
                    d = _json.loads(l)
                    got.append(d["id"])
                    per_thread.setdefault(d["thread"], []).append(d["id"])
                    if typed and d.get("pad") != "<%s>" % ("x" * d["id"]):
                        ok = False
                except Exception:
                    ok = False
        if not ok or sorted(got) != want:
            viol.append(("file-lines-torn-merged-or-dropped", {"data": data[:300], "schedule": sched}))
        elif big and any(l and _json.loads(l)["id"] == 1 and _json.loads(l)["pad"] != "<9000 x>" for l in lines[:-1]):
            viol.append(("file-big-line-content", {"data": data[:200]}))
        elif any(per_thread.get(ti, []) != list(harness[ti]) for ti in range(len(harness))):
            viol.append(("file-per-thread-order", {"data": data[:300]}))
        if len(viol) >= 3:
            break
    return execs, states, transitions, by_pre, seen, viol


def run_case(case):
    kind, hi, bound, k = case
    if kind == "mem":
        execs, states, transitions, by_pre, seen, viol = run_mem(hi, bound, (k, NSHARDS))
    else:
        execs, states, transitions, by_pre, seen, viol = run_file(hi, bound, (k, NSHARDS))
    _output.Lock = thr.CoopLock
    return Result(
        outcome=[execs, sorted(by_pre.items()), sorted(seen)],
        nontrivial=execs > 1,
        states=states,
        transitions=transitions,
        executions=execs,
        violations=viol[:3],
        extra={
            "schedules_with_0_preemptions": by_pre.get(0, 0),
            "schedules_with_1_preemption": by_pre.get(1, 0),
            "schedules_with_2_preemptions": by_pre.get(2, 0),
            "schedules_with_3_preemptions": by_pre.get(3, 0),
            "distinct_observations": set(seen),
        },
    )


def sanity(summary, tier):
    x = summary["extra"]
    probs = []
    if x.get("schedules_with_1_preemption", 0) < 100 or x.get("schedules_with_2_preemptions", 0) < 1000:
        probs.append("too few preempted schedules explored")
    if len(x.get("distinct_observations", ())) < 10:
        probs.append("schedules hardly differ in what they observe: nothing collided")
    return probs
