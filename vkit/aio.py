"""
AIO - asyncio interleaving explorer.

A stock asyncio event loop is driven by hand.  Coroutines under test await
``run.pause(label)`` at their await points; after the loop has been run to
quiescence the explorer chooses which pending pause to resolve next.  Depth
first search over all choice sequences = all completion orders of the awaited
operations.  Stock Task / create_task / gather are used unchanged.
"""

import asyncio
from asyncio import events


class Deadlock(Exception):
    pass


class Run(object):
    def __init__(self, prefix=()):
        self.prefix = list(prefix)
        self.choices = []  # (n_pending, chosen)
        self.pending = []
        self.loop = asyncio.new_event_loop()
        self.trace = []

    async def pause(self, label=None):
        fut = self.loop.create_future()
        self.pending.append((label, fut))
        await fut

    def _quiesce(self):
        loop = self.loop
        n = 0
        while loop._ready:
            loop._run_once()
            n += 1
            if n > 100000:
                raise RuntimeError("event loop does not go quiescent")

    def execute(self, main):
        """main: coroutine function taking this Run.  Returns its result."""
        loop = self.loop
        events._set_running_loop(loop)
        try:
            task = loop.create_task(main(self))
            while True:
                self._quiesce()
                if task.done():
                    break
                if not self.pending:
                    raise Deadlock("no pending pause and main task not done")
                i = len(self.choices)
                n = len(self.pending)
                if i < len(self.prefix):
                    k = self.prefix[i]
                    if k >= n:
                        raise RuntimeError("replay divergence at choice %d" % i)
                else:
                    k = 0
                self.choices.append((n, k))
                label, fut = self.pending.pop(k)
                self.trace.append(label)
                fut.set_result(None)
            return task.result()
        finally:
            events._set_running_loop(None)
            try:
                loop.close()
            except Exception:
                pass


def explore(main, on_run=None):
    """Yields (run, result) for every interleaving of main's pauses."""
    stack = [[]]
    while stack:
        prefix = stack.pop()
        r = Run(prefix)
        result = r.execute(main)
        got = [c[1] for c in r.choices[: len(prefix)]]
        if got != prefix:
            raise RuntimeError("replay divergence: %r vs %r" % (prefix, got))
        yield r, result
        chosen = [c[1] for c in r.choices]
        for i in range(len(prefix), len(r.choices)):
            for alt in range(1, r.choices[i][0]):
                stack.append(chosen[:i] + [alt])
