"""Command line: ./check <id> [--tier quick|thorough] [--replay path]"""
import os
import sys
import glob
import argparse


def main():
    ap = argparse.ArgumentParser()
    ap.add_argument("prop")
    ap.add_argument("--tier", default=os.environ.get("VERIF_TIER", "quick"))
    ap.add_argument("--replay", default=None)
    ap.add_argument("--jobs", type=int, default=None)
    args = ap.parse_args()
    if args.tier not in ("quick", "thorough"):
        sys.stderr.write("bad tier\n")
        return 2
    try:
        seed = int(os.environ.get("VERIF_SEED", "0"))
    except ValueError:
        seed = 0
    here = os.path.dirname(os.path.dirname(os.path.abspath(__file__)))
    pid = args.prop.upper()
    found = glob.glob(os.path.join(here, "props", pid.lower() + "_*.py"))
    if len(found) != 1:
        sys.stderr.write("no unique check module for %s\n" % pid)
        return 2
    modname = "props." + os.path.basename(found[0])[:-3]
    from vkit import runner

    return runner.main(modname, args.tier, seed, args.replay, args.jobs)


if __name__ == "__main__":
    sys.exit(main())
