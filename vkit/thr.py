"""
THR - stateless thread-schedule explorer.

Real ``threading.Thread``s run one at a time (per-thread semaphore baton).
Scheduling points are explicit ``point()`` calls and/or ``sys.settrace`` line
events in named source files.  Blocking primitives used by the code under test
are replaced by cooperative ones (CoopLock, CoopQueue, join) so that "blocked"
means "not enabled"; no enabled thread while some are unfinished is a deadlock.

``explore(setup, bound)`` walks every schedule with at most ``bound``
preemptions depth-first over choice prefixes (iterative context bounding,
Musuvathi & Qadeer): the running thread is first in the canonical enabled
order; choosing another thread while the running one is still enabled costs
one preemption.  Every execution runs to completion.
"""

import re
import sys
import threading

_UUID = re.compile(r"[0-9a-f]{8}-[0-9a-f]{4}-[0-9a-f]{4}-[0-9a-f]{4}-[0-9a-f]{12}")


def canon_ids(text):
    """Rename uuid-like substrings by first occurrence: what a run observes must not depend on
    *which* unique ids the code under test happens to draw (only on which ones are equal)."""
    seen = {}
    return _UUID.sub(lambda m: "<uuid-%d>" % seen.setdefault(m.group(0), len(seen)), text)

CURRENT = None  # the Sched of the execution in progress (one per process)


class _Abort(BaseException):
    pass


class ReplayDivergence(Exception):
    """A recorded prefix could not be replayed: nondeterminism not owned."""


class _Baton(object):
    """Binary semaphore on a raw C lock (threading.Semaphore is pure Python
    and an order of magnitude slower to hand over)."""

    __slots__ = ("_l",)

    def __init__(self):
        import _thread

        self._l = _thread.allocate_lock()
        self._l.acquire()

    def release(self):
        self._l.release()

    def acquire(self):
        self._l.acquire()


class VThread(object):
    def __init__(self, sched, tid, fn, name):
        self.sched = sched
        self.tid = tid
        self.fn = fn
        self.name = name
        self.sem = _Baton()
        self.done = False
        self.blocked_on = None
        self.result = None
        self.exc = None
        self.real = threading.Thread(target=self._run, name="vk-%s" % name)
        self.real.daemon = True
        self.real._vk = self

    def enabled(self):
        if self.done:
            return False
        if self.blocked_on is not None:
            return bool(self.blocked_on())
        return True

    def _run(self):
        self.sem.acquire()
        s = self.sched
        try:
            if s.aborting:
                raise _Abort()
            if s.trace_files:
                sys.settrace(s._tracer)
            try:
                self.result = self.fn()
            finally:
                sys.settrace(None)
        except _Abort:
            pass
        except BaseException as e:  # recorded, reported by the harness
            self.exc = e
        self.done = True
        s._thread_exit(self)


class Sched(object):
    def __init__(self, prefix=(), trace_files=(), trace_funcs=None, horizon=20000,
                 op_points_only=False):
        # op_points_only: the only choice points are explicit point() calls of
        # the harness.  Thread start/join are not scheduling points and a forced
        # switch (running thread blocked or finished) deterministically picks
        # the lowest enabled thread id without branching.  Sound when code
        # between point() calls has no shared effects: the picked thread only
        # advances to its own next point(), where every enabled thread is again
        # a candidate, so every interleaving of the operations stays reachable.
        self.op_points_only = op_points_only
        self.prefix = list(prefix)
        self.trace_files = set(trace_files)
        self.trace_funcs = set(trace_funcs) if trace_funcs else None
        self.horizon = horizon
        self.threads = []
        self.current = None
        self.choices = []  # (n_enabled, chosen_index, running_enabled, chosen_tid)
        self.labels = []
        self.deadlock = None
        self.horizon_hit = False
        self.aborting = False
        self.finished = threading.Event()
        self.log = []  # harness-level observations appended by thread bodies
        self.line_log = []  # (thread id, function, line) of every traced line event

    # -- construction
    def spawn(self, fn, name=None):
        t = VThread(self, len(self.threads), fn, name or "t%d" % len(self.threads))
        self.threads.append(t)
        t.real.start()
        return t

    def me(self):
        return getattr(threading.current_thread(), "_vk", None)

    # -- tracing
    def _tracer(self, frame, event, arg):
        code = frame.f_code
        if code.co_filename in self.trace_files:
            if self.trace_funcs is None or code.co_name in self.trace_funcs:
                return self._local
        return None

    def _local(self, frame, event, arg):
        if event == "line":
            me = self.me()
            self.line_log.append((me.tid if me is not None else -1, frame.f_code.co_name, frame.f_lineno))
            self.point(("line", frame.f_code.co_name, frame.f_lineno))
        return self._local

    # -- scheduling
    def _enabled(self, me):
        en = [t for t in self.threads if t.enabled()]
        if me is not None and me in en:
            en.remove(me)
            en.insert(0, me)
            return en, True
        return en, False

    def _choose(self, me, label):
        """Pick the next thread to run; returns it (or None if nothing can run)."""
        en, running_enabled = self._enabled(me)
        if not en:
            return None
        i = len(self.choices)
        if len(en) == 1:
            # forced move: not a choice point
            return en[0]
        if self.op_points_only and not running_enabled:
            return min(en, key=lambda t: t.tid)
        if i < len(self.prefix):
            k = self.prefix[i]
            if k >= len(en):
                raise ReplayDivergence(
                    "choice %d: prefix wants alternative %d of %d" % (i, k, len(en))
                )
        else:
            k = 0
        self.choices.append((len(en), k, running_enabled, en[k].tid))
        self.labels.append(label)
        if len(self.choices) > self.horizon:
            self.horizon_hit = True
            return None
        return en[k]

    def point(self, label=None):
        """Scheduling point, called by the running controlled thread."""
        me = self.me()
        if me is None or me.sched is not self:
            return
        if self.aborting:
            raise _Abort()
        nxt = self._choose(me, label)
        if nxt is None:
            self._stuck(me)
            return
        if nxt is me:
            return
        self.current = nxt
        nxt.sem.release()
        me.sem.acquire()
        if self.aborting:
            raise _Abort()

    def block_until(self, pred, label=None):
        """Cooperative blocking: returns when pred() holds; other threads run meanwhile."""
        me = self.me()
        if me is None or me.sched is not self:
            if not pred():
                raise RuntimeError("would block forever outside the scheduler")
            return
        if self.aborting:
            raise _Abort()
        if pred():
            return
        me.blocked_on = pred
        try:
            nxt = self._choose(me, label)
            if nxt is None:
                self._stuck(me)
                return
            assert nxt is not me
            self.current = nxt
            nxt.sem.release()
            me.sem.acquire()
            if self.aborting:
                raise _Abort()
        finally:
            me.blocked_on = None

    def _stuck(self, me):
        """No thread can run (deadlock) or horizon exceeded: unwind everything."""
        if not self.horizon_hit:
            self.deadlock = [
                (t.name, "done" if t.done else "blocked") for t in self.threads
            ]
        self.aborting = True
        raise _Abort()

    def _thread_exit(self, me):
        if self.aborting:
            for t in self.threads:
                if not t.done and t is not me:
                    self.current = t
                    t.sem.release()
                    return
            self.finished.set()
            return
        if all(t.done for t in self.threads):
            self.finished.set()
            return
        try:
            nxt = self._choose(None, ("exit", me.name))
        except ReplayDivergence as e:
            self.error = e
            nxt = None
        if nxt is None:
            if not self.horizon_hit:
                self.deadlock = [
                    (t.name, "done" if t.done else "blocked") for t in self.threads
                ]
            self.aborting = True
            for t in self.threads:
                if not t.done:
                    self.current = t
                    t.sem.release()
                    return
            self.finished.set()
            return
        self.current = nxt
        nxt.sem.release()

    # -- driver side
    def run(self):
        """Called by the explorer thread after spawning the initial threads."""
        global CURRENT
        CURRENT = self
        try:
            nxt = self._choose(None, ("start",))
            if nxt is None:
                return
            self.current = nxt
            nxt.sem.release()
            if not self.finished.wait(60):
                raise RuntimeError("execution did not finish within 60 s (harness bug)")
            for t in self.threads:
                t.real.join(5)
        finally:
            CURRENT = None

    def preemptions(self, upto=None):
        cs = self.choices if upto is None else self.choices[:upto]
        return sum(1 for (n, k, re, tid) in cs if re and k != 0)


# ---------------------------------------------------------------------------
# Cooperative primitives

class CoopLock(object):
    """Drop-in for threading.Lock under the scheduler (also usable without)."""

    def __init__(self):
        self.held = False
        self.owner = None

    def acquire(self, blocking=True, timeout=-1):
        s = CURRENT
        if s is not None and s.me() is not None:
            s.point(("lock.acquire",))
            if self.held:
                if not blocking:
                    return False
                s.block_until(lambda: not self.held, ("lock.wait",))
        elif self.held:
            if not blocking:
                return False
            raise RuntimeError("CoopLock would deadlock outside the scheduler")
        self.held = True
        self.owner = threading.current_thread()
        return True

    def release(self):
        if not self.held:
            raise RuntimeError("release unlocked lock")
        self.held = False
        self.owner = None
        s = CURRENT
        if s is not None and s.me() is not None:
            s.point(("lock.release",))

    def locked(self):
        return self.held

    def __enter__(self):
        self.acquire()
        return self

    def __exit__(self, *a):
        self.release()


class HybridLock(CoopLock):
    """What ``threading.Lock`` is while eliot is being imported (vkit/world.py): a lock created at import,
    class-definition or decoration time is then under the scheduler's control like the ones created later
    through the patched module attribute.  Outside a scheduled execution it is an ordinary blocking lock."""

    def __init__(self):
        CoopLock.__init__(self)
        import _thread

        self._real = _thread.allocate_lock()

    def acquire(self, blocking=True, timeout=-1):
        s = CURRENT
        if s is not None and s.me() is not None:
            return CoopLock.acquire(self, blocking, timeout)
        ok = self._real.acquire(blocking, timeout)
        if ok:
            self.held = True
            self.owner = threading.current_thread()
        return ok

    def release(self):
        s = CURRENT
        if s is not None and s.me() is not None:
            return CoopLock.release(self)
        if not self.held:
            raise RuntimeError("release unlocked lock")
        self.held = False
        self.owner = None
        if self._real.locked():
            self._real.release()


class cooperative_primitives(object):
    """``with cooperative_primitives():`` - while an object of the code under test is *constructed*,
    ``threading.Lock`` and ``queue.SimpleQueue`` are the cooperative stand-ins, however the code spells
    them (``Lock()`` imported at module level, ``threading.Lock()``, ``queue.SimpleQueue()``).  Only to be
    used around constructor calls: no thread or event may be created inside the block."""

    def __enter__(self):
        import queue

        self._saved = (threading.Lock, queue.SimpleQueue)
        threading.Lock = HybridLock
        queue.SimpleQueue = CoopQueue
        return self

    def __exit__(self, *exc):
        import queue

        threading.Lock, queue.SimpleQueue = self._saved
        return False


class CoopQueue(object):
    """Cooperative stand-in for queue.SimpleQueue: FIFO, atomic put/get;
    get on empty blocks (thread not enabled)."""

    def __init__(self):
        self.items = []

    def put(self, item, block=True, timeout=None):
        s = CURRENT
        if s is not None and s.me() is not None:
            s.point(("queue.put",))
        self.items.append(item)

    def get(self, block=True, timeout=None):
        s = CURRENT
        if s is not None and s.me() is not None:
            s.point(("queue.get",))
            if not self.items:
                s.block_until(lambda: bool(self.items), ("queue.wait",))
        elif not self.items:
            raise RuntimeError("CoopQueue.get would block outside the scheduler")
        return self.items.pop(0)

    def empty(self):
        return not self.items

    def qsize(self):
        return len(self.items)


class CoopThread(object):
    """Stand-in for threading.Thread(target=...) inside code under test."""

    def __init__(self, group=None, target=None, name=None, args=(), kwargs=None, daemon=None):
        self._target = target
        self._args = args
        self._kwargs = kwargs or {}
        self.name = name or "coop"
        self._vt = None
        self.daemon = daemon

    def start(self):
        s = CURRENT
        if s is None:
            raise RuntimeError("CoopThread outside scheduler")
        self._vt = s.spawn(lambda: self._target(*self._args, **self._kwargs), self.name)
        if not s.op_points_only:
            s.point(("thread.start",))

    def join(self, timeout=None):
        s = CURRENT
        vt = self._vt
        if vt is None:
            raise RuntimeError("cannot join thread before it is started")
        if not s.op_points_only:
            s.point(("thread.join",))
        s.block_until(lambda: vt.done, ("thread.join.wait",))

    def is_alive(self):
        return self._vt is not None and not self._vt.done

    @property
    def ident(self):
        return None if self._vt is None else self._vt.real.ident


# ---------------------------------------------------------------------------
# Exploration

class Execution(object):
    __slots__ = ("sched", "obs", "choices", "preemptions")


def run_once(setup, prefix, trace_files=(), trace_funcs=None, horizon=20000, op_points_only=False):
    """setup(sched) -> (list of (name, fn), observe) ; observe(sched) -> JSON-able"""
    s = Sched(prefix, trace_files, trace_funcs, horizon, op_points_only)
    global CURRENT
    CURRENT = s  # primitives created during setup see the scheduler
    try:
        bodies, observe = setup(s)
        for name, fn in bodies:
            s.spawn(fn, name)
        s.run()
    finally:
        CURRENT = None
    if getattr(s, "error", None):
        raise s.error
    x = Execution()
    x.sched = s
    x.choices = s.choices
    x.preemptions = s.preemptions()
    x.obs = observe(s)
    return x


def explore(setup, bound, trace_files=(), trace_funcs=None, horizon=20000, max_execs=None,
            shard=(0, 1), op_points_only=False):
    """Yields every Execution with <= bound preemptions.  Raises
    ReplayDivergence if a prefix does not replay.

    shard=(k, K): the root execution's first-level alternatives are dealt
    round-robin to K shards; shard k explores its subtrees (shard 0 also
    yields the root execution).  The union over k is the full exploration."""
    # A woken thread must not wait for the GIL switch interval (5 ms default).
    sys.setswitchinterval(1e-5)
    sk, sK = shard
    first = True
    last_x = None

    def verify(x):
        """Replay one recorded schedule and require identical observations."""
        full = [c[1] for c in x.choices]
        y = run_once(setup, full, trace_files, trace_funcs, horizon, op_points_only)
        if [c[1] for c in y.choices] != full or canon_ids(repr(y.obs)) != canon_ids(repr(x.obs)):
            raise ReplayDivergence(
                "schedule %r replayed with different observations" % (full,)
            )

    # prefixes are kept as bytes: not tracked by the cyclic GC, so a large
    # frontier does not slow the collector down
    stack = [b""]
    n = 0
    while stack:
        prefix = list(stack.pop())
        x = run_once(setup, prefix, trace_files, trace_funcs, horizon, op_points_only)
        # the replayed part must be identical to the recorded prefix
        got = [c[1] for c in x.choices[: len(prefix)]]
        if got != prefix[: len(got)] or len(x.choices) < len(prefix):
            raise ReplayDivergence("prefix %r replayed as %r" % (prefix, got))
        if first:
            verify(x)
        last_x = x
        if not (first and sk != 0):
            n += 1
            yield x
        if max_execs is not None and n >= max_execs:
            return
        chosen = bytes(c[1] for c in x.choices)
        cost = 0
        pending = []
        for i, (nen, k, running_enabled, tid) in enumerate(x.choices):
            if i >= len(prefix):
                step = 1 if running_enabled else 0
                if cost + step <= bound:
                    for alt in range(1, nen):
                        pending.append(chosen[:i] + bytes((alt,)))
            if running_enabled and k != 0:
                cost += 1
        # depth-first: explore later divergences first
        if first:
            first = False
            pending = pending[sk::sK]
        stack.extend(pending)
    if last_x is not None:
        verify(last_x)
