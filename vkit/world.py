"""
World isolation and owned nondeterminism (DESIGN.md section 2.1).

Importing this module imports eliot from VERIF_REPO (default /repo) and installs
the deterministic seams that every engine relies on:

* ``eliot._action.time``  -> deterministic strictly increasing clock
* ``eliot._action.uuid4`` -> counter based UUIDs

``fresh()`` re-initialises every piece of process-global eliot state in place.
``run_isolated(f)`` runs ``f`` in a fresh world inside an empty
``contextvars.Context``.
"""

import os
import sys
import random
import contextvars
import warnings

REPO = os.path.realpath(os.environ.get("VERIF_REPO", "/repo"))
if sys.path[0] != REPO:
    sys.path.insert(0, REPO)

warnings.filterwarnings("ignore", category=DeprecationWarning)

import threading as _threading  # noqa: E402
from . import thr as _thr  # noqa: E402

# Locks that eliot creates while it is imported (module level, class bodies, decorators) must be
# schedulable by the THR engine like the ones it creates later; outside a scheduled execution a
# HybridLock is an ordinary lock.
_REAL_LOCK = _threading.Lock
_threading.Lock = _thr.HybridLock
try:
    import eliot  # noqa: E402
    import eliot._output  # noqa: E402,F401
    import eliot._action  # noqa: E402,F401
finally:
    _threading.Lock = _REAL_LOCK
import eliot._action as _action  # noqa: E402
import eliot._output as _output  # noqa: E402
import eliot._errors as _errors  # noqa: E402
import eliot._message as _message  # noqa: E402

if os.path.realpath(os.path.dirname(os.path.dirname(eliot.__file__))) != REPO:
    sys.stderr.write(
        "HARNESS ERROR: eliot imported from %s, expected %s\n" % (eliot.__file__, REPO)
    )
    sys.exit(2)


class Clock(object):
    """Deterministic clock: 1600000000.0, then +1.0 + 1/8 per call (exact floats)."""

    def __init__(self):
        self.reset()

    def reset(self):
        self.now = 1600000000.0

    def time(self):
        self.now += 1.125
        return self.now


class UUIDs(object):
    def __init__(self):
        self.n = 0

    def reset(self):
        self.n = 0

    def __call__(self):
        self.n += 1
        return "00000000-0000-4000-8000-%012d" % self.n


CLOCK = Clock()
UUID4 = UUIDs()

# what the module itself uses when nobody interferes (the fork scenario of C02 puts these back: the id
# source under test must be eliot's own, whatever it is)
ORIGINAL_UUID4 = getattr(_action, "uuid4", None)
ORIGINAL_TIME = getattr(_action, "time", None)
_action.time = CLOCK
_action.uuid4 = UUID4

# the process-wide Destinations object, reached through the public API (add_destinations is a bound
# method of it), so that renaming eliot's private attributes does not break the harness
_DESTS = eliot.add_destinations.__self__
_ORIG_DEFAULT_LOGGER = _output._DEFAULT_LOGGER
_ORIG_REGISTRY = dict(_errors._error_extraction.registry)


def fresh():
    """Reset all process-global eliot state and the deterministic seams."""
    # Re-initialise in place: eliot.add_destinations etc. are bound methods of
    # this one instance captured at import time.
    _output.Destinations.__init__(_DESTS)
    _output._DEFAULT_LOGGER = _ORIG_DEFAULT_LOGGER
    # Re-run the constructor in place (like Destinations above) so that any
    # state it creates is fresh, then re-register the import-time extractors
    # through the public method.
    ee = _errors._error_extraction
    _errors.ErrorExtraction.__init__(ee)
    for klass, extractor in _ORIG_REGISTRY.items():
        ee.register_exception_extractor(klass, extractor)
    CLOCK.reset()
    UUID4.reset()
    random.seed(20261002)


def action_level(action):
    """The task level (list of ints) of a live Action.  There is no public accessor; the attribute
    is found by type so that a private rename in eliot does not break the harness."""
    lv = getattr(action, "_task_level", None)
    if lv is None:
        for v in vars(action).values():
            if isinstance(v, _action.TaskLevel):
                lv = v
                break
    return lv.as_list()


def action_type_of(action):
    ident = getattr(action, "_identification", None)
    if isinstance(ident, dict):
        return ident.get("action_type")
    for v in vars(action).values():
        if isinstance(v, dict) and "action_type" in v and "task_uuid" in v:
            return v["action_type"]
    return getattr(action, "action_type", None)


def run_isolated(f, *a, **kw):
    """Run f in a fresh world and an empty contextvars context."""
    fresh()
    try:
        return contextvars.Context().run(f, *a, **kw)
    finally:
        fresh()


def capture():
    """Register a list destination on the global destinations; return the list
    (of *copies* in delivery order)."""
    out = []

    def dest(m):
        out.append(m)

    eliot.add_destinations(dest)
    return out
