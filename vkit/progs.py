"""
The shared logging-program language, its bounded-exhaustive enumerator and the
interpreter that runs a program against the real eliot API while building the
reference forest (DESIGN.md section 2.3).

A program is a JSON-able list of statements:

  ["m", {attr: value}]                 a message
  ["a", {attr: value}, [children]]     an action with a body

Every attribute defaults to 0 (the simplest choice).  ``programs(nodes, devs,
schema)`` yields every ordered forest with up to ``nodes`` nodes and every
assignment of at most ``devs`` non-default attribute values.
"""

import io
import json
import asyncio
import itertools

from . import world
from .world import eliot

from eliot import (
    start_action,
    start_task,
    log_message,
    current_action,
    log_call,
    Message,
    MessageType,
    ActionType,
    Field,
    write_traceback,
    register_exception_extractor,
)
from eliot.parse import Parser
from eliot._action import WrittenAction
from eliot._message import WrittenMessage


# ---------------------------------------------------------------------------
# Shapes

def forests(n):
    """All ordered forests with exactly n nodes; a node is a message (leaf) or
    an action (any number of children).  Yields nested lists of
    ["m", {}] / ["a", {}, [...]].  Counts: 2, 6, 22, 90, 394, 1806."""
    if n == 0:
        yield []
        return
    # first tree uses k nodes (1..n), rest uses n-k
    for k in range(1, n + 1):
        for first in trees(k):
            for rest in forests(n - k):
                yield [first] + rest


def trees(k):
    if k == 1:
        yield ["m", {}]
    for body in forests(k - 1):
        yield ["a", {}, body]


def walk(prog):
    """Pre-order list of nodes."""
    out = []

    def rec(stmts):
        for s in stmts:
            out.append(s)
            if s[0] == "a":
                rec(s[2])

    rec(prog)
    return out


def clone(prog):
    return json.loads(json.dumps(prog))


def programs(max_nodes, max_devs, schema, min_nodes=1, valid=None):
    """Every program: shape with min_nodes..max_nodes nodes x every set of
    <= max_devs attribute deviations.  schema: {"m": [(attr, nvals)..],
    "a": [...]}.  Simplest first within each shape."""
    for n in range(min_nodes, max_nodes + 1):
        for shape in forests(n):
            for p in deviate(shape, max_devs, schema, valid):
                yield p


def deviate(shape, max_devs, schema, valid=None):
    nodes = walk(shape)
    slots = []
    for i, nd in enumerate(nodes):
        for attr, nvals in schema[nd[0]]:
            if nvals > 1:
                slots.append((i, attr, nvals))
    for d in range(0, max_devs + 1):
        for combo in itertools.combinations(range(len(slots)), d):
            ranges = [range(1, slots[c][2]) for c in combo]
            for vals in itertools.product(*ranges):
                p = clone(shape)
                pn = walk(p)
                for c, v in zip(combo, vals):
                    i, attr, _ = slots[c]
                    pn[i][1][attr] = v
                if valid is None or valid(p):
                    yield p


def count_nodes(prog):
    return len(walk(prog))


# ---------------------------------------------------------------------------
# Alphabets

class Custom(Exception):
    """Application exception with a registered extractor.  The extractor returns a dictionary that
    lives on the exception object (like `lambda e: e.details`), i.e. the same object every time."""

    def __init__(self, code):
        Exception.__init__(self, "custom %s" % (code,))
        self.code = code
        self.details = {"code": code}


class CustomChild(Custom):
    """Subclass without its own extractor: nearest registered class is Custom."""


class StrRaises(Exception):
    def __str__(self):
        raise RuntimeError("str() failed")


def _mk_exc(i):
    if i == 0:
        return ValueError("boom")
    if i == 1:
        return OSError(5, "io")
    if i == 2:
        return Custom(7)
    if i == 3:
        return KeyboardInterrupt("stop")
    if i == 4:
        return CustomChild(9)
    if i == 5:
        return StrRaises()
    if i == 6:
        return GeneratorExit()
    if i == 7:
        return asyncio.CancelledError("c")
    if i == 8:
        return SystemExit(3)
    if i == 9:
        return KeyError("k")
    if i == 10:
        return BadExtract("bad extract")
    if i == 11:
        return MutualA("mutual")
    if i == 12:
        return BoolBoom("boolboom")
    if i == 13:
        _FLAKY[0] += 1
        e = FlakyExtract("flaky %d" % _FLAKY[0])
        e.first = _FLAKY[0] == 1
        return e
    if i == 14:
        return ModuleLess("moduleless")
    raise IndexError(i)


# a class whose __module__ is not a string (generated stubs, classes with the attribute cleared)
ModuleLess = type("ModuleLess", (Exception,), {"__module__": None})

N_EXC = 10

# exit attribute: 0 = normal return; else (catch_up, exception index)
# catch_up: number of enclosing action boundaries the exception crosses after
# leaving this action before it is caught (99 = to the top of the program).
EXITS = [None] + [(0, e) for e in range(N_EXC)] + [(1, 0), (99, 0), (1, 3), (99, 6), (2, 2), (0, 10), (99, 10), (0, 11), (0, 12), (1, 12), (0, 13), (0, 14), (1, 14)]


def exc_name(e):
    return "%s.%s" % (e.__class__.__module__, e.__class__.__name__)


def exc_reason(e):
    try:
        return str(e)
    except Exception:
        return None  # any text accepted


def exc_extra(e):
    """Fields of the extractor registered for the nearest class in the MRO."""
    if isinstance(e, Custom):
        return {"code": e.code}
    if isinstance(e, OSError):
        return {"errno": e.errno}
    if isinstance(e, FlakyExtract) and e.first:
        return {"flaky": 1}
    return {}


# Field sets: all values JSON-native, so the expected decoded value is the
# value itself.
FIELDSETS = [
    {},
    {"x": 1},
    {"s": "café \"q\" \\ \n\t  \U0001f600", "n": None, "b": True, "e": ""},
    {"l": [1, [2, {"k": "v"}], []], "d": {"a": {"b": [None, False]}, "": 0}},
    {"big": 2 ** 53 + 1, "neg": -(2 ** 63), "max": 2 ** 63 - 1, "f": 1.5, "z": -0.0, "tiny": 5e-324},
    {"x": 2, "y": [{"z": "\x00\x1f"}]},
]
N_FS = len(FIELDSETS)


# Hostile values (C07): indexes N_FS.. in ALL_FS
class _StrBoom(object):
    def __str__(self):
        raise RuntimeError("str boom")


class _ReprBoom(object):
    def __repr__(self):
        raise RuntimeError("repr boom")


class _BothBoom(object):
    def __str__(self):
        raise RuntimeError("str boom")

    def __repr__(self):
        raise RuntimeError("repr boom")


def _deep(n):
    x = []
    for _ in range(n):
        x = [x]
    return x


def _selfref():
    x = [1]
    x.append(x)
    return x


class _NoCopy(object):
    """Cannot be copied, pickled or turned into JSON."""

    def __deepcopy__(self, memo):
        raise TypeError("no deepcopy")

    def __copy__(self):
        raise TypeError("no copy")

    def __reduce_ex__(self, protocol):
        raise TypeError("no pickle")


def hostile_fieldsets():
    import threading

    return [
        {"h": _StrBoom()},
        {"h": _ReprBoom()},
        {"h": _BothBoom()},
        {"h": {1: "int key"}},
        {"h": {(1, 2): "tuple key"}},
        {"h": {_BothBoom(): "object key"}},
        {"h": 2 ** 64},
        {"h": -(2 ** 63) - 1},
        {"h": float("nan")},
        {"h": float("inf"), "g": float("-inf")},
        {"h": b"\xff\xfe bytes"},
        {"h": "lone \ud800 surrogate"},
        {"h": object()},
        {"h": _deep(400)},
        {"h": _selfref()},
        {"x": _BothBoom()},
        {"h": threading.Lock()},
        {"h": (i for i in [1])},
        {"h": _deep(600)},
        {"h": _NoCopy()},
    ]


HOSTILE = hostile_fieldsets()
ALL_FS = FIELDSETS + HOSTILE
N_ALL_FS = len(ALL_FS)

MTYPES = ["app:m", "app:n", ""]


def _wrap(v):
    return {"ser": v}


class SerializerBoom(Exception):
    pass


def _raising_serializer(v):
    raise SerializerBoom("serializer failed")


class BadExtract(Exception):
    """Application exception whose registered extractor raises."""


class FlakyExtract(Exception):
    """Its extractor works for the first instance raised in a run and raises for every later one."""


_FLAKY = [0]


class MutualA(Exception):
    """Its extractor raises a MutualB, whose extractor raises a MutualA."""


class MutualB(Exception):
    pass


class BoolBoom(Exception):
    """Application exception whose truth value cannot be taken."""

    def __bool__(self):
        raise RuntimeError("no truth value")

    def __len__(self):
        raise RuntimeError("no len")


TYPED_MSG = MessageType("app:typed", [Field("tv", _wrap, "wrapped")], "typed message")
TYPED_ACT = [
    ActionType(
        "app:T%d" % i,
        [Field("tv", _wrap, "wrapped start")],
        [Field("rv", _wrap, "wrapped result")],
        "typed action",
    )
    for i in range(2)
]
TYPED_MSG_BAD = MessageType("app:badtyped", [Field("tv", _raising_serializer, "")], "")
TYPED_ACT_BAD = ActionType(
    "app:B", [Field("tv", _raising_serializer, "")], [Field("rv", _raising_serializer, "")], ""
)
ATYPES = ["app:X", "app:Y", ""]  # "" is start_action()'s default type

MSG_APIS = [
    "log_message",
    "action.log",
    "Message.log",
    "Message.new.write",
    "MessageType.log",
    "write_traceback",
    "MessageType().write",
    "MessageType.log with raising serializer",
    "enclosing_action.log (an action that is open but not current)",
    "write_traceback of an exception whose bool() raises",
]
ACT_STYLES = [
    "with",
    "context+finish",
    "run+finish",
    "start_task",
    "log_call",
    "finish-in-context",
    "remote:immediate,bytes-id",
    "remote:deferred,str-id",
    "re-enter current action with run()",
    "re-enter current action with context()",
]
REMOTE_STYLES = (6, 7)
REENTER_STYLES = (8, 9)

# Default attribute schema (name, number of values).  Checks pass their own
# restriction of it.
SCHEMA = {
    "m": [("api", len(MSG_APIS)), ("mt", len(MTYPES)), ("fs", N_FS)],
    "a": [
        ("style", 5),
        ("typed", 2),
        ("at", 2),
        ("exit", len(EXITS)),
        ("sf", N_FS),
        ("ef", N_FS),
        ("xf", 3),
    ],
}


# "rf" = 1: the caller also passes fields named like eliot's own message keys.
# eliot's values win on every path, so the reference is unchanged.
RESERVED_MSG = {"timestamp": "user-ts", "task_level": [7, 7], "task_uuid": "user-uuid"}
RESERVED_ACT = dict(RESERVED_MSG, action_status="user-status")


def valid_default(prog):
    """Skip attribute combinations that merely duplicate another program."""
    for top in prog:
        if top[0] == "a" and top[1].get("style", 0) in REMOTE_STYLES + REENTER_STYLES:
            return False  # nothing to continue / re-enter at top level
    for nd in walk(prog):
        a = nd[1]
        if nd[0] == "a":
            if a.get("style", 0) == 4 and a.get("typed", 0):
                return False  # log_call has no typed variant
            if a.get("typed", 0) and a.get("at", 0) >= len(TYPED_ACT):
                return False  # typed actions have two types only
            if a.get("style", 0) in REMOTE_STYLES and (
                a.get("typed", 0) or a.get("at", 0)
            ):
                return False  # remote continuation has a fixed type here
            if a.get("rf", 0) and (a.get("typed", 0) or a.get("style", 0) in REMOTE_STYLES):
                return False
            if a.get("kf", 0) and (a.get("typed", 0) or a.get("style", 0) in REMOTE_STYLES + REENTER_STYLES + (4,)):
                return False
            if a.get("style", 0) in REENTER_STYLES and any(
                a.get(k, 0) for k in ("typed", "at", "sf", "ef", "xf", "rf")
            ):
                return False  # a re-entry scope creates no action of its own
        else:
            if a.get("api", 0) in (4, 5, 6) and a.get("mt", 0):
                return False  # typed / traceback messages have a fixed type
            if a.get("api", 0) in (7, 9):
                return False  # failing serializers / hostile exceptions are C07's / C13's alphabet
            if a.get("api", 0) == 5 and a.get("fs", 0):
                return False
            if a.get("rf", 0) and a.get("api", 0) in (5, 9):
                return False  # write_traceback takes no fields
            if a.get("kf", 0) and a.get("api", 0) in (4, 5, 6, 7, 9):
                return False
    return True


# ---------------------------------------------------------------------------
# Interpreter

class Raised(object):
    pass


class Interp(object):
    """Runs a program against the real API and records the reference forest.

    Reference nodes:
      {"k": "a", "type", "start": {...}, "status", "end": {...}, "children": [...]}
      {"k": "m", "type", "fields": {...}}
    ``problems`` collects oracle failures observed while running (exception
    identity, API calls that raised, wrong return values).
    """

    def __init__(self, prog, probe=None, tag=False):
        self.tag = tag
        self.prog = prog
        self.forest = []
        self.stack = []
        self.problems = []
        self.probe = probe
        self.in_flight = None
        self.serial = 0
        self.deferred = []
        self.task_ids = []
        self.astack = []  # real Action objects parallel to self.stack (None where unknown)
        self.side = 0  # which "process" is logging (0 = origin; remote hand-offs get 1, 2, ..)
        self.nsides = 0

    # -- helpers
    def _attach(self, ref, new_root=False):
        if new_root or not self.stack:
            self.forest.append(ref)
        else:
            self.stack[-1]["children"].append(ref)

    def _next_serial(self):
        self.serial += 1
        return self.serial

    def problem(self, sig, detail):
        self.problems.append((sig, detail))

    # -- execution
    def run(self):
        register_exception_extractor(Custom, lambda e: e.details)

        def bad_extractor(e):
            raise RuntimeError("extractor failed")

        register_exception_extractor(BadExtract, bad_extractor)
        _FLAKY[0] = 0

        def flaky_extractor(e):
            if e.first:
                return {"flaky": 1}
            raise RuntimeError("extractor failed for this instance")

        register_exception_extractor(FlakyExtract, flaky_extractor)

        def a_extractor(e):
            raise MutualB("from A's extractor")

        def b_extractor(e):
            raise MutualA("from B's extractor")

        register_exception_extractor(MutualA, a_extractor)
        register_exception_extractor(MutualB, b_extractor)
        for stmt in self.prog:
            try:
                self.exec_stmt(stmt)
            except BaseException as e:
                if not getattr(e, "_vk", False):
                    self.problem(
                        "api-raised", {"exc": repr(e), "stmt": stmt}
                    )
                elif e is not self.in_flight:
                    self.problem("exception-identity", {"stmt": stmt})
                self.in_flight = None
            if self.probe:
                self.probe(self, "after-top", stmt)
        if getattr(self, "before_deferred", None) is not None and self.deferred:
            # a hand-off that runs after the originating actions have finished is about to log
            self.before_deferred(self)
        while self.deferred:
            self.deferred.pop(0)()
        return self.forest

    def exec_block(self, stmts):
        for s in stmts:
            self.exec_stmt(s)

    def exec_stmt(self, s):
        if s[0] == "m":
            self.exec_msg(s)
        else:
            self.exec_act(s)
        if self.probe:
            self.probe(self, "after", s)

    def exec_msg(self, s):
        a = s[1]
        api = a.get("api", 0)
        mt = MTYPES[a.get("mt", 0)]
        fs = dict(ALL_FS[a.get("fs", 0)])
        fs["serial"] = self._next_serial()
        cur = current_action()
        if a.get("kf", 0):
            # "kf": an application field that is named like one of the keys that tell actions from messages
            fs["action_status"] = "running"
        rfs = dict(fs)  # what the reference expects
        if a.get("rf", 0):
            fs.update(RESERVED_MSG)
        if api == 0:
            ref = {"k": "m", "type": mt, "fields": dict(rfs)}
            self._attach(ref)
            log_message(mt, **fs)
        elif api == 1:
            ref = {"k": "m", "type": mt, "fields": dict(rfs)}
            self._attach(ref)
            if cur is not None:
                cur.log(mt, **fs)
            else:
                log_message(message_type=mt, **fs)
        elif api == 2:
            ref = {"k": "m", "type": mt, "fields": dict(rfs)}
            self._attach(ref)
            Message.log(message_type=mt, **fs)
        elif api == 3:
            ref = {"k": "m", "type": mt, "fields": dict(rfs)}
            self._attach(ref)
            Message.new(message_type=mt, **fs).write()
        elif api in (4, 6):
            tv = fs.get("x", "tv%d" % a.get("fs", 0))
            ref = {
                "k": "m",
                "type": "app:typed",
                "fields": dict(rfs, tv={"ser": tv}),
            }
            self._attach(ref)
            if api == 4:
                TYPED_MSG.log(tv=tv, **fs)
            else:
                TYPED_MSG(tv=tv, **fs).write()
        elif api == 8:
            # log on the nearest *enclosing* action object that is open but not current
            ref = {"k": "m", "type": mt, "fields": dict(rfs)}
            outer = None
            if len(self.astack) >= 2 and self.astack[-2] is not None and len(self.stack) >= 2:
                outer = self.astack[-2]
            if outer is None:
                self._attach(ref)
                log_message(mt, **fs)
            else:
                self.stack[-2]["children"].append(ref)
                outer.log(mt, **fs)
        elif api == 9:
            ref = {"k": "m", "type": "eliot:traceback", "fields": {"reason": Ellipsis, "exception": "vkit.progs.BoolBoom", "traceback": Ellipsis}}
            self._attach(ref)
            try:
                raise BoolBoom("tb%d" % fs["serial"])
            except BoolBoom:
                write_traceback()
        elif api == 7:
            ref = {"k": "m", "type": "app:badtyped", "fields": dict(rfs), "dropped": True}
            self._attach(ref)
            TYPED_MSG_BAD.log(tv=1, **fs)
        elif api == 5:
            ref = {
                "k": "m",
                "type": "eliot:traceback",
                "fields": {
                    "reason": "tb%d" % fs["serial"],
                    "exception": "builtins.ZeroDivisionError",
                    "traceback": Ellipsis,
                },
            }
            self._attach(ref)
            try:
                raise ZeroDivisionError("tb%d" % fs["serial"])
            except ZeroDivisionError:
                write_traceback()

    def _raise(self, s):
        ex = EXITS[s[1].get("exit", 0)]
        if ex is None:
            return
        up, ei = ex
        e = _mk_exc(ei)
        e._vk = True
        e._vk_up = up
        self.in_flight = e
        raise e

    def exec_act(self, s):
        a = s[1]
        style = a.get("style", 0)
        if style in REENTER_STYLES:
            # no new action: re-enter the context of the action that is already current
            cur = current_action()

            def scope():
                self.exec_block(s[2])
                self._raise(s)

            if style == 8:
                cur.run(scope)
            else:
                with cur.context():
                    scope()
            return
        typed = a.get("typed", 0)
        sfi, efi = a.get("sf", 0), a.get("ef", 0)
        sf = dict(ALL_FS[sfi])
        ef = dict(ALL_FS[efi])
        xf = a.get("xf", 0)
        if typed:
            at = TYPED_ACT[a.get("at", 0) % len(TYPED_ACT)] if typed == 1 else TYPED_ACT_BAD
            atype = at.action_type
            tv = "start%d" % sfi
            rv = "res%d" % efi
            start_ref = dict(sf, tv={"ser": tv})
            start_args = dict(sf, tv=tv)
            end_ref = dict(ef, rv={"ser": rv})
            end_args = dict(ef, rv=rv)
        else:
            at = None
            atype = ATYPES[a.get("at", 0)]
            start_ref, start_args = dict(sf), dict(sf)
            end_ref, end_args = dict(ef), dict(ef)
        if a.get("kf", 0):
            for d in (start_ref, start_args, end_ref, end_args):
                d["message_type"] = "user-field"
        if a.get("rf", 0):
            start_args.update(RESERVED_ACT)
            end_args.update(RESERVED_ACT)
        if self.tag:
            start_ref["vk_style"] = style
            start_args["vk_style"] = style
        ref = {
            "k": "a",
            "type": atype,
            "start": start_ref,
            "status": "started",
            "end": {},
            "children": [],
        }

        def body():
            self.exec_block(s[2])
            self._raise(s)

        def ok():
            ref["status"] = "succeeded"
            ref["end"] = end_ref

        def failed(e):
            ref["status"] = "failed"
            end = dict(exc_extra(e))
            end["exception"] = exc_name(e)
            r = exc_reason(e)
            end["reason"] = Ellipsis if r is None else r
            ref["end"] = end

        def boundary(e):
            """The exception left this action; swallow or let it travel on."""
            if not getattr(e, "_vk", False):
                return False
            if e is not self.in_flight:
                self.problem("exception-identity", {"stmt": s})
            if e._vk_up <= 0:
                self.in_flight = None
                return True
            e._vk_up -= 1
            return False

        if style == 4:
            # log_call: the decorated function's argument and result are the fields
            arg = ALL_FS[sfi].get("x", "arg%d" % sfi)
            result = ALL_FS[efi].get("x", "res%d" % efi)
            at_name = "app:call%d" % a.get("at", 0)
            ref["type"] = at_name
            ref["start"] = {"x": arg}
            end_ref = {"result": result}

            def fn(x, timestamp="user-ts", task_level=(7, 7), task_uuid="user-uuid", action_status="user-status"):
                return fn1(x)

            def fn1(x):
                self.stack.append(ref)
                self.astack.append(current_action())
                try:
                    body()
                finally:
                    self.stack.pop()
                    self.astack.pop()
                return result

            if a.get("rf", 0):
                fn = log_call(action_type=at_name)(fn)
            else:
                fn = log_call(action_type=at_name)(fn1)
            self._attach(ref)
            try:
                got = fn(arg)
            except BaseException as e:
                failed(e)
                if not boundary(e):
                    raise
            else:
                self._not_swallowed(s)
                if got is not result and got != result:
                    self.problem("log_call-result", {"stmt": s})
                ok()
            return

        if style in REMOTE_STYLES:
            return self.exec_remote(s, ref, body, ok, failed, sf, end_args)

        new_root = style == 3
        self._attach(ref, new_root=new_root)
        if style == 3:
            if at is not None:
                action = at.as_task(**start_args)
            else:
                action = start_task(action_type=atype, **start_args)
        else:
            if at is not None:
                action = at(**start_args)
            else:
                action = start_action(action_type=atype, **start_args)

        self.stack.append(ref)
        self.astack.append(action)
        try:
            if style in (0, 3):
                try:
                    with action as ctx:
                        if ctx is not action:
                            self.problem("with-returns-other", {"stmt": s})
                        if end_args:
                            action.add_success_fields(**end_args)
                        body()
                except BaseException as e:
                    failed(e)
                    self._extra_finish(action, xf)
                    if not boundary(e):
                        raise
                else:
                    self._not_swallowed(s)
                    ok()
                    self._extra_finish(action, xf)
            elif style == 1:
                try:
                    with action.context():
                        if end_args:
                            action.add_success_fields(**end_args)
                        body()
                except BaseException as e:
                    failed(e)
                    action.finish(e)
                    self._extra_finish(action, xf)
                    if not boundary(e):
                        raise
                else:
                    ok()
                    action.finish()
                    self._extra_finish(action, xf)
            elif style == 2:
                try:
                    if end_args:
                        action.add_success_fields(**end_args)
                    action.run(body)
                except BaseException as e:
                    failed(e)
                    action.finish(e)
                    self._extra_finish(action, xf)
                    if not boundary(e):
                        raise
                else:
                    ok()
                    action.finish()
                    self._extra_finish(action, xf)
            elif style == 5:
                # finish while the action is still the current one
                e_seen = None
                try:
                    with action.context():
                        if end_args:
                            action.add_success_fields(**end_args)
                        try:
                            body()
                        except BaseException as e:
                            failed(e)
                            action.finish(e)
                            e_seen = e
                        else:
                            ok()
                            action.finish()
                finally:
                    pass
                self._extra_finish(action, xf)
                if e_seen is not None and not boundary(e_seen):
                    raise e_seen
        finally:
            self.stack.pop()
            self.astack.pop()

    def exec_remote(self, s, ref, body, ok, failed, sf, end_args):
        """Hand work to 'another thread/process': reserve a position in the
        current action, continue the task in a separate context."""
        import contextvars
        from eliot import Action

        cur = current_action()
        if cur is None:
            # nothing to continue (e.g. under a failed-over context); run as a
            # plain with-action instead so the program stays meaningful
            raise RuntimeError("remote statement without current action")
        tid = cur.serialize_task_id()
        self.task_ids.append(tid)
        style = s[1].get("style", 0)
        if style == 7:
            tid = tid.decode("ascii")
        ref["type"] = "eliot:remote_task"
        ref["start"] = dict(sf)
        ref["remote"] = True
        self._attach(ref)
        xf = s[1].get("xf", 0)

        def remote():
            saved = self.stack
            saved_astack = self.astack
            self.astack = [None]
            saved_side = self.side
            self.nsides += 1
            self.side = self.nsides
            self.stack = [ref]
            try:
                try:
                    with Action.continue_task(task_id=tid, **sf) as action:
                        if end_args:
                            action.add_success_fields(**end_args)
                        body()
                except BaseException as e:
                    if not getattr(e, "_vk", False):
                        raise
                    if e is not self.in_flight:
                        self.problem("exception-identity", {"stmt": s})
                    self.in_flight = None
                    failed(e)
                    self._extra_finish(action, xf)
                else:
                    ok()
                    self._extra_finish(action, xf)
            finally:
                self.stack = saved
                self.astack = saved_astack
                self.side = saved_side

        if style == 7:
            self.deferred.append(lambda: contextvars.Context().run(remote))
        else:
            contextvars.Context().run(remote)

    def _not_swallowed(self, s):
        """The body raised (an exception is in flight) but the block ended normally."""
        if self.in_flight is not None:
            self.problem("application-exception-swallowed", {"stmt": s, "exc": type(self.in_flight).__name__})
            self.in_flight = None

    def _extra_finish(self, action, xf):
        if xf == 1:
            action.finish()
        elif xf == 2:
            action.finish(RuntimeError("late"))
            action.finish()


# ---------------------------------------------------------------------------
# Observation: parser tree -> reference shape

_SKIP_A = ("action_type", "action_status")


def from_written(node):
    if isinstance(node, WrittenMessage):
        c = dict(node.contents)
        mt = c.pop("message_type", None)
        return {"k": "m", "type": mt, "fields": _plain(c)}
    start = dict(node.start_message.contents) if node.start_message else None
    end = dict(node.end_message.contents) if node.end_message else None
    out = {"k": "a", "type": node.action_type, "status": node.status}
    if start is not None:
        for k in _SKIP_A:
            start.pop(k, None)
        out["start"] = _plain(start)
    else:
        out["start"] = "MISSING"
    if end is not None:
        for k in _SKIP_A:
            end.pop(k, None)
        out["end"] = _plain(end)
    else:
        out["end"] = {}
    out["children"] = [from_written(c) for c in node.children]
    return out


def _plain(x):
    """pyrsistent -> plain python"""
    from pyrsistent import PMap, PVector

    if isinstance(x, (dict, PMap)):
        return {k: _plain(v) for k, v in x.items()}
    if isinstance(x, (list, tuple, PVector)):
        return [_plain(v) for v in x]
    return x


def same(expected, got):
    """Deep equality where Ellipsis in `expected` accepts any str, floats are
    compared by repr (so -0.0 != 0.0 and NaN == NaN) and bool is not int."""
    if expected is Ellipsis:
        return isinstance(got, str)
    if isinstance(expected, dict):
        if not isinstance(got, dict) or set(expected) != set(got):
            return False
        return all(same(expected[k], got[k]) for k in expected)
    if isinstance(expected, list):
        if not isinstance(got, list) or len(expected) != len(got):
            return False
        return all(same(a, b) for a, b in zip(expected, got))
    if type(expected) is not type(got):
        return False
    if isinstance(expected, float):
        return repr(expected) == repr(got)
    return expected == got


def first_diff(expected, got, path="$"):
    if expected is Ellipsis:
        return None if isinstance(got, str) else (path, "any str", got)
    if isinstance(expected, dict) and isinstance(got, dict):
        if set(expected) != set(got):
            return (path, sorted(expected), sorted(got))
        for k in expected:
            d = first_diff(expected[k], got[k], path + "." + str(k))
            if d:
                return d
        return None
    if isinstance(expected, list) and isinstance(got, list):
        if len(expected) != len(got):
            return (path + ".len", len(expected), len(got))
        for i, (a, b) in enumerate(zip(expected, got)):
            d = first_diff(a, b, "%s[%d]" % (path, i))
            if d:
                return d
        return None
    if same(expected, got):
        return None
    return (path, repr(expected)[:200], repr(got)[:200])


def jsonable(x):
    """Reference forest -> JSON-able (Ellipsis -> "...")"""
    if x is Ellipsis:
        return "<any str>"
    if isinstance(x, dict):
        return {k: jsonable(v) for k, v in x.items()}
    if isinstance(x, list):
        return [jsonable(v) for v in x]
    return x


def shape_sig(forest):
    """Short structural rendering of a forest: a(m a()) ..."""

    def r(n):
        if n["k"] == "m":
            return "m"
        return "a%s(%s)" % (
            {"succeeded": "", "failed": "!", "started": "?"}.get(n.get("status"), "?"),
            " ".join(r(c) for c in n["children"]),
        )

    return " ".join(r(n) for n in forest)


# ---------------------------------------------------------------------------
# Running a program through the real JSON-file path

def run_to_file(prog, probe=None, extra_dests=()):
    """Execute prog in a fresh world with to_file(BytesIO).  Returns
    (interp, raw bytes, list destination contents)."""

    def go():
        buf = io.BytesIO()
        seen = []
        for d in extra_dests:
            eliot.add_destinations(d)
        eliot.to_file(buf)
        eliot.add_destinations(seen.append)
        it = Interp(prog, probe)
        it.run()
        return it, buf.getvalue(), seen

    return world.run_isolated(go)


def parse_lines(raw):
    lines = raw.split(b"\n")
    assert lines[-1] == b"", "file does not end with newline"
    return [json.loads(l.decode("utf-8")) for l in lines[:-1]]


def order_tasks(tasks, dicts):
    """Parsed tasks in the order in which the program began them: by the earliest timestamp among the
    task's messages (the clock seam is strictly increasing), ties by first appearance in ``dicts``.
    Nothing here depends on what the task uuids look like."""
    first = {}
    for i, m in enumerate(dicts):
        u = m.get("task_uuid")
        k = (m.get("timestamp", 0), i)
        if u not in first or k < first[u]:
            first[u] = k
    return sorted(tasks, key=lambda t: first.get(t.root().task_uuid, (float("inf"), 0)))


def parse_forest(dicts):
    tasks = list(Parser.parse_stream(dicts))
    return tasks
