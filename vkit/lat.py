"""
LAT - explicit-state search.  ``subset_lattice`` explores the whole subset
lattice of a message set with the real Parser: every subset is a state, every
single-message arrival a transition that calls the real ``Parser.add``.
"""

from .world import eliot  # noqa: F401  (forces the import-location check)
from eliot.parse import Parser
from eliot._action import WrittenAction
from eliot._message import WrittenMessage


def tree_messages(node, out):
    """Collect (uuid, level-tuple) of every message reachable in a parsed tree."""
    if isinstance(node, WrittenMessage):
        out.append((node.task_uuid, tuple(node.task_level.as_list())))
        return
    if node.start_message is not None:
        tree_messages(node.start_message, out)
    if node.end_message is not None:
        tree_messages(node.end_message, out)
    for c in node.children:
        tree_messages(c, out)


def key(m):
    return (m["task_uuid"], tuple(m["task_level"]))


def subset_lattice(msgs, check_reachability=True):
    """msgs: list of message dicts (distinct (uuid, level)).
    Returns (states, transitions, violations, n_completion_events)."""
    n = len(msgs)
    keys = [key(m) for m in msgs]
    assert len(set(keys)) == n
    by_uuid = {}
    for i, m in enumerate(msgs):
        by_uuid[m["task_uuid"]] = by_uuid.get(m["task_uuid"], 0) | (1 << i)
    full = (1 << n) - 1
    # state: mask -> (parser, {uuid: Task} completed so far)
    state = {0: (Parser(), {})}
    viol = []
    transitions = 0
    completions = 0

    def bad(sig, detail):
        if len(viol) < 5:
            viol.append((sig, detail))

    for mask in range(0, full + 1):
        cur = state.get(mask)
        if cur is None:
            continue  # unreachable because a predecessor transition raised
        parser, done = cur
        if check_reachability:
            got = []
            try:
                for t in list(parser.incomplete_tasks()) + list(done.values()):
                    tree_messages(t.root(), got)
            except Exception as e:
                bad("partial-tree-unavailable", {"subset": _idx(mask, n), "error": repr(e)[:200]})
                continue
            want = sorted(keys[i] for i in range(n) if mask >> i & 1)
            if sorted(got) != want:
                bad(
                    "tree-content",
                    {"subset": _idx(mask, n), "missing": sorted(set(want) - set(got))[:3],
                     "extra": sorted(set(got) - set(want))[:3],
                     "dups": len(got) - len(set(got))},
                )
            incomplete = {t.root().task_uuid if _rooted(t) else None: t for t in parser.incomplete_tasks()}
            for u in done:
                if u in incomplete:
                    bad("completed-task-still-incomplete", {"subset": _idx(mask, n)})
            for u, t in incomplete.items():
                if t.is_complete():
                    bad("incomplete-list-holds-complete", {"subset": _idx(mask, n)})
        for i in range(n):
            bit = 1 << i
            if mask & bit:
                continue
            transitions += 1
            nmask = mask | bit
            try:
                completed, p2 = parser.add(msgs[i])
            except Exception as e:
                bad("parser-raised", {"subset": _idx(mask, n), "adding": i, "error": repr(e)[:300]})
                continue
            u = msgs[i]["task_uuid"]
            should = (nmask & by_uuid[u]) == by_uuid[u]
            if should:
                completions += 1
            if len(completed) > 1:
                bad("several-completed", {"subset": _idx(mask, n), "adding": i})
            if bool(completed) != should:
                bad(
                    "completed-too-early" if completed else "completion-missed",
                    {"subset": _idx(mask, n), "adding": i, "level": msgs[i]["task_level"]},
                )
            d2 = done
            for t in completed:
                if not t.is_complete():
                    bad("yielded-not-complete", {"subset": _idx(mask, n), "adding": i})
                if t.root().task_uuid != u:
                    bad("yielded-other-task", {"subset": _idx(mask, n), "adding": i})
                d2 = dict(done)
                d2[u] = t
            new = (p2, d2)
            old = state.get(nmask)
            if old is None:
                state[nmask] = new
            else:
                if not (old[0] == p2):
                    bad("order-dependent-parser-state", {"subset": _idx(nmask, n), "last_added": i})
                elif old[1] != d2:
                    bad("order-dependent-completed-tree", {"subset": _idx(nmask, n), "last_added": i})
    return len(state), transitions, viol, completions


def _rooted(t):
    try:
        t.root()
        return True
    except Exception:
        return False


def _idx(mask, n):
    return [i for i in range(n) if mask >> i & 1]
