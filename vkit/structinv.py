"""
Structural invariant of C02 on the stream of message dicts one destination
received (in emission order).  No reference model: it cannot over-specify.
"""

STATUSES = ("started", "succeeded", "failed")


def check_stream(stream, order=True, allow_unfinished=False, order_exempt=None):
    """Returns list of (signature, detail).

    order_exempt(start_message) -> True for child actions whose position was
    reserved ahead of time for another thread/process (serialize_task_id /
    preserve_context hand-offs): their messages are emitted concurrently with
    the parent's later positions, so they are left out of the emission-order
    comparison (level order is still a causally consistent linear extension)."""
    viol = []

    def bad(sig, **d):
        if len(viol) < 8:
            viol.append((sig, d))

    seen = {}
    tasks = {}
    for idx, m in enumerate(stream):
        u = m.get("task_uuid")
        lv = m.get("task_level")
        ts = m.get("timestamp")
        if not isinstance(u, str):
            bad("field:task_uuid", index=idx, got=repr(u))
            continue
        if (
            not isinstance(lv, list)
            or not lv
            or not all(type(x) is int and x >= 1 for x in lv)
        ):
            bad("field:task_level", index=idx, got=repr(lv))
            continue
        if type(ts) is not float:
            bad("field:timestamp", index=idx, got=repr(ts))
        has_mt = "message_type" in m
        has_at = "action_type" in m
        has_st = "action_status" in m
        if has_mt == (has_at and has_st) or (has_at != has_st):
            bad("field:type", index=idx, keys=sorted(m))
        if has_st and m["action_status"] not in STATUSES:
            bad("field:action_status", index=idx, got=m["action_status"])
        k = (u, tuple(lv))
        if k in seen:
            bad("duplicate-position", uuid=u, level=lv, first=seen[k], second=idx)
            continue
        seen[k] = idx
        tasks.setdefault(u, []).append((tuple(lv), idx, m))

    for u, items in tasks.items():
        # single context-less message?
        if len(items) == 1 and items[0][0] == (1,) and "message_type" in items[0][2]:
            continue
        # group by action prefix
        prefixes = {}
        for lv, idx, m in items:
            for cut in range(len(lv)):
                P = lv[:cut]
                comp = lv[cut]
                e = prefixes.setdefault(P, {}).setdefault(
                    comp, {"first": idx, "direct": None, "deeper": False}
                )
                e["first"] = min(e["first"], idx)
                if cut == len(lv) - 1:
                    e["direct"] = m
                else:
                    e["deeper"] = True
        for P, comps in prefixes.items():
            n = max(comps)
            if sorted(comps) != list(range(1, n + 1)):
                bad(
                    "gap",
                    uuid=u,
                    action=list(P),
                    positions=sorted(comps),
                    style=_style(comps),
                )
            for c, e in comps.items():
                if e["direct"] is not None and e["deeper"]:
                    bad("message-and-subtree-at-same-position", uuid=u, level=list(P) + [c])
            first = comps.get(1)
            if (
                first is None
                or first["direct"] is None
                or first["direct"].get("action_status") != "started"
            ):
                bad("start-not-at-1", uuid=u, action=list(P))
            ends = [
                c
                for c, e in comps.items()
                if e["direct"] is not None
                and e["direct"].get("action_status") in ("succeeded", "failed")
            ]
            starts = [
                c
                for c, e in comps.items()
                if e["direct"] is not None
                and e["direct"].get("action_status") == "started"
            ]
            if len(starts) > 1:
                bad("several-starts", uuid=u, action=list(P))
            if len(ends) > 1:
                bad("several-ends", uuid=u, action=list(P))
            elif len(ends) == 1 and ends[0] != n:
                bad(
                    "end-not-last" + _style_suffix(comps),
                    uuid=u,
                    action=list(P),
                    end_at=ends[0],
                    last=n,
                    after=[
                        (comps[c]["direct"] or {}).get("message_type", "subtree")
                        for c in range(ends[0] + 1, n + 1)
                        if c in comps
                    ],
                )
            elif not ends and not allow_unfinished:
                bad("no-end", uuid=u, action=list(P))
            if first and first["direct"] is not None and len(ends) == 1:
                d0, d1 = first["direct"], comps[ends[0]]["direct"]
                if d0.get("action_type") != d1.get("action_type"):
                    bad("start-end-type-differ", uuid=u, action=list(P))
            if order:
                last_first = -1
                for c in sorted(comps):
                    if order_exempt is not None and comps[c]["deeper"]:
                        sub = prefixes.get(P + (c,), {}).get(1, {}).get("direct")
                        if sub is not None and order_exempt(sub):
                            continue
                    f = comps[c]["first"]
                    if f < last_first:
                        bad(
                            "emission-order-disagrees-with-level-order",
                            uuid=u,
                            action=list(P),
                            position=c,
                        )
                        break
                    last_first = f
    return viol


def _style(comps):
    d = comps.get(1, {}).get("direct") or {}
    return d.get("vk_style")


def _style_suffix(comps):
    s = _style(comps)
    if s == 5:
        return ":explicit-finish-while-current"
    return ""
