"""
FLT - environment-answer enumerator (fault injector).

Every call into something the application supplies is a *choice point* whose
default answer is "return normally"; a deviation is "raise exception kind k".
``explore(run, bound)`` walks every answer sequence with at most ``bound``
deviations, adaptively: the number of points is only known after running,
because failure reports are themselves delivered.
"""

import copy


class DestError(Exception):
    """Application-defined exception raised by a faulty destination."""


class StrRaisesError(Exception):
    def __str__(self):
        raise RuntimeError("no str for you")


# an exception class created in a C extension / with type(): its __module__ need not be a string
ModulelessError = type("ModulelessError", (Exception,), {"__module__": None})

KINDS = [None, ValueError, OSError, DestError, StrRaisesError, ModulelessError]


def make_exc(kind, text):
    cls = KINDS[kind]
    if cls is OSError:
        return OSError(28, text)
    return cls(text)


class Answers(object):
    """Decides the answer at each choice point.

    devs: {point index: alternative (>=1)}; strategy: callable(point_index,
    label) -> alternative or 0, consulted when no deviation is scripted.
    """

    def __init__(self, devs=None, strategy=None):
        self.devs = dict(devs or {})
        self.strategy = strategy
        self.points = []  # label of every point met

    def ask(self, label):
        i = len(self.points)
        self.points.append(label)
        alt = self.devs.get(i, 0)
        if not alt and self.strategy is not None:
            alt = self.strategy(i, label)
        return i, alt


def explore(run, bound, nalts, start=()):
    """run(devs: dict) -> (npoints, result).  Yields (devs_tuple, result) for
    every deviation set with <= bound deviations (positions increasing, each
    deviation in 1..nalts).  Exhaustive: a deviation at position p cannot
    change points before p, so extending only to the right enumerates each
    answer sequence once."""
    stack = [tuple(start)]
    while stack:
        dev = stack.pop()
        npoints, result = run(dict(dev))
        yield dev, npoints, result
        if len(dev) < bound:
            lo = dev[-1][0] + 1 if dev else 0
            for pos in range(npoints - 1, lo - 1, -1):
                na = nalts(len(dev)) if callable(nalts) else nalts
                for alt in range(na, 0, -1):
                    stack.append(dev + ((pos, alt),))


class Dest(object):
    """A destination whose answers come from an Answers object.  Records a deep
    copy of every message offered (before answering)."""

    def __init__(self, name, answers=None, log=None):
        self.name = name
        self.answers = answers
        self.got = []
        self.log = log if log is not None else []

    def __call__(self, message):
        self.got.append(copy.deepcopy(message))
        if self.answers is None:
            self.log.append((self.name, 0))
            return
        is_report = message.get("message_type") == "eliot:destination_failure"
        i, alt = self.answers.ask((self.name, "report" if is_report else "primary"))
        self.log.append((self.name, alt))
        if alt:
            raise make_exc(alt, "fail@%d" % i)
