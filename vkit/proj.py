"""
PROJ - schedule-independence of every thread's own log ("projection
invariance"), explored with the THR engine.

Each controlled thread runs a short list of logging operations.  Scheduling
points are (a) before every operation and (b) *inside* the logging calls: the
observing destination yields to the scheduler before it records a message (a
slow destination), so another thread can run while the first one is in the
middle of a logging call - e.g. while it is reporting a broken extractor, a
failing destination or a failing serializer.  Optionally every line of named
functions of eliot/_output.py is a scheduling point too.

Oracle: the list of messages each thread emitted (in its own order, with
timestamps dropped and task uuids renamed by first occurrence) is the same in
every schedule as in the default sequential schedule, no thread raised, nothing
deadlocked; plus a few absolute expectations on the sequential run so that a
consistently wrong log is not accepted.
"""

import re
import contextvars

from . import thr, world
from .world import eliot

from eliot import (
    start_action,
    log_message,
    write_traceback,
    add_destinations,
    add_global_fields,
    register_exception_extractor,
    MessageType,
    Field,
    log_call,
)

OUTPUT_FILE = eliot._output.__file__


class BadExtract(Exception):
    """Its registered extractor raises."""


class Detailed(Exception):
    """Its registered extractor returns fields."""


class SerBoom(Exception):
    pass


def _boom(v):
    raise SerBoom("serializer failed")


BAD_TYPED = MessageType("p:badtyped", [Field("tv", _boom, "always fails")], "typed message whose serializer raises")

OPS = ["m", "ok", "badx", "errno", "custom", "poison", "badser", "tb", "gf", "call"]


@log_call(action_type="p:call")
def _called(x):
    log_message("p:msg", who="in-call-%s" % x)
    return x


def _run_op(op, label):
    if op == "m":
        log_message("p:msg", who=label)
    elif op == "ok":
        with start_action(action_type="p:act", who=label):
            log_message("p:msg", who=label + ".in")
    elif op in ("badx", "errno", "custom"):
        try:
            with start_action(action_type="p:act", who=label):
                if op == "badx":
                    raise BadExtract(label)
                if op == "errno":
                    raise OSError(5, "io " + label)
                raise Detailed(label)
        except (BadExtract, OSError, Detailed):
            pass
    elif op == "poison":
        log_message("p:poison", who=label)
    elif op == "badser":
        BAD_TYPED.log(tv=1, who=label)
    elif op == "tb":
        try:
            raise ZeroDivisionError(label)
        except ZeroDivisionError:
            write_traceback()
    elif op == "gf":
        add_global_fields(**{"gf_" + label.replace(".", "_"): 1})
    elif op == "call":
        _called(label)
    else:
        raise ValueError(op)


_TS = re.compile(r"\d{9,}\.\d+")
_UU = re.compile(r"[0-9a-f]{8}-[0-9a-f]{4}-[0-9a-f]{4}-[0-9a-f]{4}-[0-9a-f]{12}")
_GF = re.compile(r",? ?[\"']+gf_\w+[\"']+: [\"']*\d+[\"']*")


def _normalise(msgs):
    out = []
    uu = {}
    for m in msgs:
        d = {}
        for k, v in m.items():
            if k == "timestamp" or k.startswith("gf_"):
                continue
            if k == "task_uuid":
                v = uu.setdefault(v, len(uu))
            if k == "message" and isinstance(v, str):
                # failure reports quote the offending message: drop what is schedule dependent by construction
                v = _TS.sub("<ts>", _UU.sub("<uuid>", _GF.sub("", v)))
            d[k] = v
        out.append(sorted((k, repr(v)) for k, v in d.items()))
    return out


def _expect_sequential(ops, proj):
    """Absolute expectations on one thread's projection (any schedule)."""
    bad = []
    types = [dict(m).get("message_type") for m in proj]
    n = lambda t: sum(1 for x in types if x == repr(t))
    want_tb = sum(1 for o in ops if o in ("badx", "tb", "badser"))
    if n("eliot:traceback") != want_tb:
        bad.append("tracebacks=%d want %d" % (n("eliot:traceback"), want_tb))
    if n("eliot:destination_failure") != sum(1 for o in ops if o == "poison"):
        bad.append("destination_failure=%d" % n("eliot:destination_failure"))
    if n("eliot:serialization_failure") != sum(1 for o in ops if o == "badser"):
        bad.append("serialization_failure=%d" % n("eliot:serialization_failure"))
    ends = [dict(m) for m in proj if dict(m).get("action_status") == repr("failed")]
    if sum(1 for e in ends if e.get("errno") == "5") != sum(1 for o in ops if o == "errno"):
        bad.append("errno-fields")
    if sum(1 for e in ends if e.get("detail") == repr("extracted")) != sum(1 for o in ops if o == "custom"):
        bad.append("extractor-fields")
    if len(ends) != sum(1 for o in ops if o in ("badx", "errno", "custom")):
        bad.append("failed-ends=%d" % len(ends))
    return bad


def run(harness, line_funcs=None, bound=99):
    """harness = {"threads": [[op, ...], ...], "pre_global": n}
    Returns (executions, states, transitions, distinct emission orders, violations)."""
    threads = harness["threads"]

    def setup(s):
        world.fresh()
        register_exception_extractor(BadExtract, lambda e: 1 / 0)
        register_exception_extractor(Detailed, lambda e: {"detail": "extracted"})
        seen = []

        def observing(m):
            me = s.me()
            if not line_funcs:
                s.point(("dest", me.name if me else None))
            seen.append((me.name if me else None, m))

        def faulty(m):
            if m.get("message_type") == "p:poison":
                raise RuntimeError("destination failed")

        add_destinations(observing, faulty)
        for i in range(harness.get("pre_global", 0)):
            add_global_fields(**{"gf_pre%d" % i: i})
        done = []

        def body(name, ops):
            def fn():
                for j, op in enumerate(ops):
                    s.point(("op", name))
                    _run_op(op, "%s.%d" % (name, j))
                done.append(name)

            return lambda: contextvars.Context().run(fn)

        def observe(s):
            return {"seen": list(seen), "done": sorted(done)}

        return [("T%d" % i, body("T%d" % i, ops)) for i, ops in enumerate(threads)], observe

    viol = []
    execs = states = transitions = 0
    orders = set()
    base = None
    kw = {}
    if line_funcs:
        kw = {"trace_files": [OUTPUT_FILE], "trace_funcs": set(line_funcs)}
    for x in thr.explore(setup, bound, op_points_only=not line_funcs, **kw):
        execs += 1
        transitions += len(x.choices)
        states += 1 + len(x.choices)
        sched = [c[3] for c in x.choices]
        o = x.obs
        if x.sched.deadlock or len(o["done"]) != len(threads):
            viol.append(("thread-died-or-deadlock", {"schedule": sched, "done": o["done"],
                                                     "exc": [repr(t.exc)[:200] for t in x.sched.threads if t.exc]}))
        for t in x.sched.threads:
            if t.exc is not None:
                viol.append(("logging-call-raised-in-thread", {"thread": t.name, "exc": repr(t.exc)[:200], "schedule": sched}))
        proj = {}
        for name, m in o["seen"]:
            proj.setdefault(name, []).append(m)
        proj = {k: _normalise(v) for k, v in proj.items()}
        orders.add(tuple(n for n, _ in o["seen"]))
        if base is None:
            base = proj
            for i, ops in enumerate(threads):
                for b in _expect_sequential(ops, proj.get("T%d" % i, [])):
                    viol.append(("sequential-log-unexpected", {"thread": "T%d" % i, "ops": ops, "what": b}))
        elif proj != base:
            for k in sorted(set(proj) | set(base)):
                if proj.get(k) != base.get(k):
                    got, want = proj.get(k, []), base.get(k, [])
                    i = next((i for i in range(min(len(got), len(want))) if got[i] != want[i]), min(len(got), len(want)))
                    viol.append(("thread-log-depends-on-schedule", {
                        "thread": k, "schedule": sched, "n_got": len(got), "n_want": len(want),
                        "first_difference_at": i,
                        "got": got[i] if i < len(got) else None, "want": want[i] if i < len(want) else None}))
                    break
        if len(viol) >= 4:
            break
    return execs, states, transitions, len(orders), viol


def harnesses(ops, pairs_with=None, two_op=()):
    """All unordered pairs of single-op threads over ``ops`` (each paired with
    every op of ``pairs_with`` or of ``ops``), plus the given multi-op harnesses."""
    out = []
    others = pairs_with or ops
    seen = set()
    for a in ops:
        for b in others:
            key = tuple(sorted((a, b)))
            if key in seen:
                continue
            seen.add(key)
            out.append({"threads": [[a], [b]]})
    for h in two_op:
        out.append({"threads": [list(t) for t in h]})
    return out
