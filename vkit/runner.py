"""
Uniform runner: shards the finite case space of a check over a process pool,
merges the counters, proves determinism by replaying selected cases, applies
the known-findings list, writes evidence and replay files, and sets the exit
status.

A check module (props/cNN_*.py) provides:

    ID, LEVEL, RULE, ASSUMPTIONS, BOUNDS(tier) -> dict
    units(tier)            -> list of JSON-able unit descriptors
    cases(unit, tier)      -> iterator of JSON-able cases (deterministic)
    run_case(case)         -> Result
    optional: finish(summary, tier) -> list of (sig, case, detail) global violations
    optional: sample_view(case) -> JSON-able short rendering for evidence

Everything is enumerated; VERIF_SEED only permutes the order in which units are
handed to workers and which samples are shown.
"""

import os
import sys
import json
import time
import random
import hashlib
import traceback
import multiprocessing

VERIF = os.path.dirname(os.path.dirname(os.path.abspath(__file__)))
# Evidence and replay files go to /verif unless VERIF_OUT is set (used when a
# check is pointed at a scratch copy of the repository for mutant runs).
OUT = os.environ.get("VERIF_OUT") or VERIF


class Result(object):
    """Outcome of one case.

    outcome: JSON-able canonical form of what was observed (for counting
        distinct behaviours and for the determinism replay).
    nontrivial: does this case count as non-trivial by the check's RULE.
    states/transitions/executions: measured by the engine for this case.
    violations: list of (signature, detail) - signature names the failing
        input shape / call site / history class.
    """

    __slots__ = (
        "outcome",
        "nontrivial",
        "states",
        "transitions",
        "executions",
        "violations",
        "extra",
    )

    def __init__(
        self,
        outcome,
        nontrivial=True,
        states=0,
        transitions=0,
        executions=1,
        violations=None,
        extra=None,
    ):
        self.outcome = outcome
        self.nontrivial = nontrivial
        self.states = states
        self.transitions = transitions
        self.executions = executions
        self.violations = violations or []
        self.extra = extra or {}


def digest(obj):
    from .thr import canon_ids

    # uuid-like strings are renamed by first occurrence: an outcome may mention task ids, and which
    # unique ids the code draws is not part of any property
    s = canon_ids(json.dumps(obj, sort_keys=True, default=repr))
    return hashlib.blake2b(s.encode("utf-8", "surrogatepass"), digest_size=8).hexdigest()


class HarnessError(Exception):
    pass


_MOD = None
_TIER = None


_KNOWN_SIGS = set()


def _init_worker(modname, tier):
    global _MOD, _TIER
    _MOD = __import__(modname, fromlist=["x"])
    _TIER = tier
    _KNOWN_SIGS.clear()
    for f in load_known().get("findings", []):
        if f["property"] == _MOD.ID:
            _KNOWN_SIGS.add(f["signature"])
    # (each worker is pinned to one CPU in _worker: the thread explorer hands a
    # baton between threads of one process, far cheaper on a single core)


def _run_unit(arg):
    idx, (unit, shard, nshards) = arg
    mod, tier = _MOD, _TIER
    acc = {
        "unit": idx,
        "evaluations": 0,
        "executions": 0,
        "nontrivial": set(),
        "outcomes": set(),
        "states": 0,
        "transitions": 0,
        "violations": [],
        "nviol": 0,
        "nfresh": 0,
        "samples": [],
        "extra": {},
        "error": None,
    }
    try:
        first = last = None
        replay = []
        for ci, case in enumerate(mod.cases(unit, tier)):
            if ci % nshards != shard:
                continue
            _CUR[0], _CUR[1] = case, time.time()
            res = mod.run_case(case)
            _CUR[0] = None
            acc["evaluations"] += 1
            acc["executions"] += res.executions
            d = digest(res.outcome)
            acc["outcomes"].add(d)
            if res.nontrivial:
                acc["nontrivial"].add(digest(case))
            acc["states"] += res.states
            acc["transitions"] += res.transitions
            for k, v in res.extra.items():
                if isinstance(v, (set, frozenset, list)):
                    acc["extra"].setdefault(k, set()).update(v)
                else:
                    acc["extra"][k] = acc["extra"].get(k, 0) + v
            if first is None:
                first = (case, d)
                acc["samples"].append(_sample(mod, case, res))
            last = (case, d)
            if acc["nfresh"] >= 10:
                # enough counterexamples from this unit: stop early (the run is
                # then reported as not exhaustive; it exits 1 anyway)
                acc["truncated"] = True
                break
            if res.violations:
                acc["nviol"] += len(res.violations)
                acc["nfresh"] += sum(1 for sig, _ in res.violations if sig not in _KNOWN_SIGS)
                if len(acc["violations"]) < 20:
                    if len(replay) < 3:
                        replay.append((case, d))
                    for sig, detail in res.violations:
                        acc["violations"].append(
                            {"sig": sig, "case": case, "detail": detail}
                        )
        # Determinism proof: replay first, last and violating cases (modules
        # whose single case is a whole schedule exploration verify replay
        # determinism inside the engine instead and set DETERMINISM_REPLAY=False).
        todo = [x for x in (first, last) if x is not None] + replay
        dr = getattr(mod, "DETERMINISM_REPLAY", True)
        if callable(dr):
            todo = [x for x in todo if dr(x[0])]
        elif not dr:
            todo = []
        for case, d in todo:
            res2 = mod.run_case(case)
            if digest(res2.outcome) != d:
                raise HarnessError(
                    "non-deterministic replay of case %r: %r"
                    % (case, res2.outcome)
                )
        if last is not None and last is not first:
            acc["samples"].append(_sample(mod, last[0], None))
    except BaseException:
        acc["error"] = traceback.format_exc()
    return acc


def _sample(mod, case, res):
    view = getattr(mod, "sample_view", None)
    s = {"case": view(case) if view else case}
    if res is not None:
        o = res.outcome
        txt = json.dumps(o, default=repr, sort_keys=True)
        s["observed"] = o if len(txt) < 1500 else txt[:1500] + "..."
    return s


_CUR = [None, 0.0]  # case being run by this worker, start time


def _watchdog(slot, res_q, limit):
    """Runs in every worker: a case that does not return within `limit`
    seconds is reported and the worker exits (logging must never hang the
    application; a bare `except:` in the code under test can swallow
    asynchronous exceptions, so the only reliable remedy is to kill)."""
    import threading

    def loop():
        while True:
            time.sleep(1.0)
            case, t0 = _CUR
            lim = limit
            f = getattr(_MOD, "CASE_TIMEOUT_FOR", None)
            if case is not None and f is not None:
                try:
                    lim = f(case)
                except Exception:
                    lim = limit
            if case is not None and time.time() - t0 > lim:
                res_q.put(("hang", slot, case, time.time() - t0))
                os._exit(3)

    t = threading.Thread(target=loop, daemon=True)
    t.start()


def _worker(slot, modname, tier, task_q, res_q, limit):
    try:
        cpus = sorted(os.sched_getaffinity(0))
        os.sched_setaffinity(0, {cpus[slot % len(cpus)]})
    except Exception:
        pass
    _init_worker(modname, tier)
    _watchdog(slot, res_q, limit)
    while True:
        item = task_q.get()
        if item is None:
            res_q.put(("exit", slot))
            return
        res_q.put(("start", slot, item[0]))
        acc = _run_unit(item)
        res_q.put(("done", slot, acc))


def run_pool(order, modname, tier, jobs, limit):
    """Own process pool (fork): survives workers that die or hang."""
    from multiprocessing.connection import wait

    ctx = multiprocessing.get_context("fork")
    task_q = ctx.SimpleQueue()
    res_q = ctx.SimpleQueue()
    procs = {}
    current = {}

    def spawn(slot):
        p = ctx.Process(target=_worker, args=(slot, modname, tier, task_q, res_q, limit))
        p.daemon = True
        p.start()
        procs[slot] = p

    for slot in range(jobs):
        spawn(slot)
    # Feed incrementally (a few units per worker in flight): putting every unit
    # up front can fill the pipe while workers block on a full result pipe.
    feed = iter(order)
    sentinels = [0]

    def feed_one():
        item = next(feed, None)
        if item is None:
            if sentinels[0] < jobs:
                sentinels[0] += 1
                task_q.put(None)
        else:
            task_q.put(item)

    for _ in range(jobs * 2):
        feed_one()
    pending = len(order)
    results = []
    hangs = []
    exited = set()
    state = {"pending": pending}

    def handle(msg):
        if msg[0] == "start":
            current[msg[1]] = msg[2]
        elif msg[0] == "done":
            current.pop(msg[1], None)
            results.append(msg[2])
            state["pending"] -= 1
            feed_one()
        elif msg[0] == "hang":
            _, slot, case, secs = msg
            hangs.append({"unit": current.get(slot), "case": case, "seconds": round(secs, 1)})
        elif msg[0] == "exit":
            exited.add(msg[1])

    while state["pending"] > 0:
        if res_q._reader.poll(1.0):
            handle(res_q.get())
            continue
        dead = [slot for slot, p in procs.items() if not p.is_alive() and slot not in exited]
        if not dead:
            continue
        # a worker may have finished and exited between the poll and the scan:
        # read everything it (and the others) already sent before judging
        while res_q._reader.poll(0.2):
            handle(res_q.get())
        for slot in dead:
            p = procs[slot]
            if slot in exited:
                continue
            p.join()
            if slot in current:
                # died (watchdog exit or crash) while holding a unit
                idx = current.pop(slot)
                state["pending"] -= 1
                if not any(h["unit"] == idx for h in hangs):
                    hangs.append({"unit": idx, "case": None, "seconds": None, "exitcode": p.exitcode})
                spawn(slot)
                feed_one()
            else:
                exited.add(slot)
    while sentinels[0] < jobs:
        sentinels[0] += 1
        task_q.put(None)
    for p in procs.values():
        p.join(5)
        if p.is_alive():
            p.kill()
    return results, hangs


def load_known():
    path = os.path.join(VERIF, "known_findings.json")
    if not os.path.exists(path):
        return {"findings": [], "fixed": []}
    with open(path) as f:
        return json.load(f)


def main(modname, tier, seed, replay_path=None, jobs=None):
    t0 = time.time()
    mod = __import__(modname, fromlist=["x"])
    pid = mod.ID
    if replay_path:
        return _replay(mod, replay_path)

    units = list(mod.units(tier))
    # SHARDS: split every unit into K strided shards (case index mod K) so that
    # a few large units do not serialise the run; the union is the same set.
    K = int(getattr(mod, "SHARDS", 1))
    order = list(enumerate((u, k, K) for u in units for k in range(K)))
    random.Random(seed).shuffle(order)
    jobs = jobs or int(os.environ.get("VERIF_JOBS", "0")) or min(
        16, multiprocessing.cpu_count()
    )
    jobs = max(1, min(jobs, len(order)))
    results, hangs = run_pool(order, modname, tier, jobs, getattr(mod, "CASE_TIMEOUT", 120))
    results.sort(key=lambda a: a["unit"])

    errors = [a["error"] for a in results if a["error"]]
    if errors:
        # A unit whose harness failed (e.g. a schedule that does not replay because the code
        # under test became non-deterministic) decides nothing.  Violations found by the other
        # units are still real executions and are reported (exit 1); with none, exit 2.
        sys.stderr.write("HARNESS ERROR in %s (%d unit(s)):\n%s\n" % (pid, len(errors), errors[0]))
        if not any(a["violations"] for a in results):
            return 2

    summary = {
        "evaluations": sum(a["evaluations"] for a in results),
        "executions": sum(a["executions"] for a in results),
        "states": sum(a["states"] for a in results),
        "transitions": sum(a["transitions"] for a in results),
        "outcomes": set().union(*[a["outcomes"] for a in results]) if results else set(),
        "nontrivial": set().union(*[a["nontrivial"] for a in results])
        if results
        else set(),
        "extra": {},
        "units": len(units),
    }
    for a in results:
        for k, v in a["extra"].items():
            if isinstance(v, set):
                summary["extra"].setdefault(k, set()).update(v)
            else:
                summary["extra"][k] = summary["extra"].get(k, 0) + v
    violations = []
    for a in results:
        violations.extend(a["violations"])
    nviol = sum(a["nviol"] for a in results)
    for hng in hangs:
        violations.append(
            {
                "sig": "call-did-not-return" if hng.get("case") is not None else "worker-died",
                "case": hng.get("case"),
                "detail": hng,
            }
        )
        nviol += 1
    fin = getattr(mod, "finish", None)
    if fin:
        for sig, case, detail in fin(summary, tier) or []:
            violations.append({"sig": sig, "case": case, "detail": detail})
            nviol += 1

    # Known findings
    known = load_known()
    listed = {
        f["signature"]: f for f in known.get("findings", []) if f["property"] == pid
    }
    seen_known = {}
    fresh = []
    for v in violations:
        if v["sig"] in listed:
            seen_known.setdefault(v["sig"], v)
        else:
            fresh.append(v)
    # Vacuity guard: a module may state what a non-vacuous run must have observed
    # (e.g. more than one distinct outcome over the schedules).  A vacuous run decides
    # nothing: exit 2, never a pass.
    san = getattr(mod, "sanity", None)
    if san and not errors and not fresh:
        probs = san(summary, tier) or []
        if probs:
            sys.stderr.write("HARNESS ERROR in %s: vacuous exploration: %s\n" % (pid, "; ".join(probs)))
            return 2
    for sig, v in sorted(seen_known.items()):
        print("KNOWN-FINDING: property=%s %s -- %s" % (pid, sig, listed[sig]["text"]))

    # Replay files for fresh violations (one per signature, smallest case first)
    by_sig = {}
    for v in fresh:
        cur = by_sig.get(v["sig"])
        if cur is None or len(json.dumps(v["case"], default=repr)) < len(
            json.dumps(cur["case"], default=repr)
        ):
            by_sig[v["sig"]] = v
    rdir = os.path.join(OUT, "replays", pid)
    for sig, v in sorted(by_sig.items()):
        os.makedirs(rdir, exist_ok=True)
        body = {
            "property": pid,
            "signature": sig,
            "case": v["case"],
            "detail": v["detail"],
            "repo": os.environ.get("VERIF_REPO", "/repo"),
            "replay_cmd": "./check %s --replay <this file>" % pid,
        }
        path = os.path.join(rdir, digest([sig, v["case"]]) + ".json")
        with open(path, "w") as f:
            json.dump(body, f, indent=1, default=repr, sort_keys=True)
        print("VIOLATION property=%s replay=%s" % (pid, path))
        print("  signature: %s" % sig)
        d = json.dumps(v["detail"], default=repr)
        print("  detail: %s" % (d[:600]))

    # Evidence
    rnd = random.Random(seed)
    samples = []
    pool_s = [s for a in results for s in a["samples"]]
    if pool_s:
        picks = [pool_s[0], pool_s[-1]] + rnd.sample(pool_s, min(3, len(pool_s)))
        for s in picks:
            if s not in samples:
                samples.append(s)
    cov = {
        "evaluations": summary["evaluations"],
        "distinct_nontrivial": len(summary["nontrivial"]),
        "rule": mod.RULE,
        "samples": samples,
        "exhaustive": not any(a.get("truncated") for a in results) and not hangs and not errors,
        "executions": summary["executions"],
        "distinct_observed_outcomes": len(summary["outcomes"]),
        "bounds": mod.BOUNDS(tier),
        "units": len(units),
        "determinism_replays": sum(min(2, a["evaluations"]) for a in results),
    }
    if mod.LEVEL == "model_checking":
        cov["states"] = max(1, summary["states"])
        cov["transitions"] = max(1, summary["transitions"])
        cov["traces_validated_against_impl"] = summary["executions"]
        cov["explanation"] = (
            "Every explored trace is an execution of the real eliot code under the "
            "harness scheduler / fault injector, so traces_validated_against_impl "
            "equals the number of executions."
        )
    for k, v in summary["extra"].items():
        cov[k] = len(v) if isinstance(v, set) else v
    ev = {
        "property_id": pid,
        "tier": tier,
        "seed": seed,
        "level": mod.LEVEL,
        "coverage": cov,
        "assumptions": list(mod.ASSUMPTIONS),
        "wall_s": round(time.time() - t0, 2),
        "violations": len(fresh),
        "known_findings_observed": sorted(seen_known),
        "repo": os.environ.get("VERIF_REPO", "/repo"),
    }
    os.makedirs(os.path.join(OUT, "evidence"), exist_ok=True)
    with open(os.path.join(OUT, "evidence", pid + ".json"), "w") as f:
        json.dump(ev, f, indent=1, default=repr, sort_keys=True)

    print(
        "%s %s: cases=%d executions=%d states=%d transitions=%d distinct_outcomes=%d "
        "violations=%d known=%d wall=%.1fs"
        % (
            pid,
            tier,
            summary["evaluations"],
            summary["executions"],
            summary["states"],
            summary["transitions"],
            len(summary["outcomes"]),
            len(fresh),
            len(seen_known),
            time.time() - t0,
        )
    )
    if errors and not fresh:
        return 2
    return 1 if fresh else 0


def _replay(mod, path):
    with open(path) as f:
        body = json.load(f)
    case = body["case"]
    r1 = mod.run_case(case)
    r2 = mod.run_case(case)
    if digest(r1.outcome) != digest(r2.outcome):
        sys.stderr.write("HARNESS ERROR: replay is not deterministic\n")
        return 2
    print("replay of %s" % path)
    print("case: %s" % json.dumps(case, default=repr)[:2000])
    print("observed: %s" % json.dumps(r1.outcome, default=repr)[:4000])
    if r1.violations:
        for sig, detail in r1.violations:
            print("VIOLATION property=%s replay=%s" % (mod.ID, path))
            print("  signature: %s" % sig)
            print("  detail: %s" % json.dumps(detail, default=repr)[:2000])
        return 1
    print("no violation on this tree")
    return 0
