#!/venv/bin/python
"""Print the 'as built' coverage table (markdown) from the evidence files of the last runs."""
import json, glob, os
rows = []
for p in sorted(glob.glob('/verif/evidence/C*.json')):
    e = json.load(open(p)); c = e['coverage']
    extra = {k: v for k, v in c.items() if k not in ('samples', 'rule', 'explanation', 'bounds', 'evaluations', 'distinct_nontrivial', 'exhaustive', 'executions', 'distinct_observed_outcomes', 'units', 'determinism_replays', 'states', 'transitions', 'traces_validated_against_impl')}
    rows.append("| %s | %s | %s | %d | %d | %s | %s | %s | %.0f s | %s |" % (
        e['property_id'], e['tier'], e['level'], c['evaluations'], c.get('executions', 0),
        c.get('states', '-'), c.get('transitions', '-'), c['distinct_observed_outcomes'], e['wall_s'],
        "; ".join("%s=%s" % kv for kv in sorted(extra.items()))[:160]))
print("| id | tier | level | cases | executions of real code | states | transitions | distinct outcomes | wall | engine-specific counters |")
print("|---|---|---|---|---|---|---|---|---|---|")
print("\n".join(rows))
