#!/venv/bin/python
"""tools/mkmut.py <PROP> <name> <file-relative-to-repo>  (reads 'OLD\n====\nNEW' from stdin)
Writes selftest/<PROP>/<name>.diff as a unified diff against /repo's current file."""
import sys, os, difflib
prop, name, rel = sys.argv[1:4]
spec = sys.stdin.read()
old, new = spec.split("\n====\n")
new = new.rstrip("\n") + "\n" if new.strip() else ""
old = old.rstrip("\n") + "\n"
src = open(os.path.join("/repo", rel)).read()
if src.count(old) != 1:
    sys.exit("OLD text occurs %d times in %s" % (src.count(old), rel))
dst = src.replace(old, new)
diff = difflib.unified_diff(src.splitlines(True), dst.splitlines(True), "a/" + rel, "b/" + rel)
out = os.path.join(os.path.dirname(os.path.dirname(os.path.abspath(__file__))), "selftest", prop)
os.makedirs(out, exist_ok=True)
open(os.path.join(out, name + ".diff"), "w").write("".join(diff))
print("wrote", os.path.join(out, name + ".diff"))
