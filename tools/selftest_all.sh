#!/bin/bash
# Run every hand-written mutant under selftest/<PROP>/*.diff against that property's check.
# Output: one line per mutant.  benign_* patches are expected to give exit=0.
cd "$(dirname "$0")/.."
for d in selftest/C*/; do
  prop=$(basename "$d")
  for f in "$d"*.diff; do
    [ -e "$f" ] || continue
    timeout 1200 tools/mut.sh "$f" "$prop" 2>&1 | grep -v WARNING | sed "s/^/$prop /" | cut -c1-160
  done
done
