#!/venv/bin/python
"""
tools/seed_eval.py <worktree> <k> <PROP> <name> [extra check ids...]

Validate one sub-agent mutant (mutant<k>.diff, demo<k>.py, notes<k>.md in the
worktree) and file it under /verif/seeded/<name>/:
  1. demo exits 0 on a clean scratch copy of /repo and non-zero on the mutated copy;
  2. the baseline test command passes all 404 stable tests on the mutated copy;
  3. run the property's check (and any extra ids) against the mutated copy.
Nothing is applied to /repo itself.  Scratch copies live under /var/tmp and are removed.
"""
import os
import sys
import json
import shutil
import subprocess
import tempfile
import xml.etree.ElementTree as ET

wt, k, prop, name = sys.argv[1:5]
extra = sys.argv[5:]
VERIF = os.path.dirname(os.path.dirname(os.path.abspath(__file__)))
diff = os.path.join(wt, "mutant%s.diff" % k)
demo = os.path.join(wt, "demo%s.py" % k)
notes = os.path.join(wt, "notes%s.md" % k)
for f in (diff, demo):
    if not os.path.exists(f):
        sys.exit("missing " + f)

scratch = tempfile.mkdtemp(prefix="vseed.", dir="/var/tmp")
meta = {"name": name, "property": prop, "source": "independent sub-agent given only the property text and a scratch worktree"}
try:
    clean = os.path.join(scratch, "clean")
    mut = os.path.join(scratch, "mut")
    for d in (clean, mut):
        os.makedirs(d)
        subprocess.check_call("git -C /repo archive HEAD | tar -x -C %s" % d, shell=True)
    r = subprocess.run(["git", "apply", "--whitespace=nowarn", diff], cwd=mut, capture_output=True, text=True)
    if r.returncode != 0:
        r = subprocess.run("patch -p1 -s < %s" % diff, cwd=mut, shell=True, capture_output=True, text=True)
        if r.returncode != 0:
            sys.exit("patch does not apply: " + r.stderr + r.stdout)
    env = dict(os.environ, PYTHONDONTWRITEBYTECODE="1", PYTHONHASHSEED="0")
    shutil.copy(demo, os.path.join(clean, "demo.py"))
    shutil.copy(demo, os.path.join(mut, "demo.py"))
    rc_clean = subprocess.run(["/venv/bin/python", "demo.py"], cwd=clean, env=env, capture_output=True, text=True, timeout=600)
    rc_mut = subprocess.run(["/venv/bin/python", "demo.py"], cwd=mut, env=env, capture_output=True, text=True, timeout=600)
    meta["demo_exit_clean"] = rc_clean.returncode
    meta["demo_exit_mutated"] = rc_mut.returncode
    meta["demo_output_mutated"] = (rc_mut.stdout + rc_mut.stderr)[-600:]
    print("demo: clean=%d mutated=%d" % (rc_clean.returncode, rc_mut.returncode))
    # test suite on the mutated copy
    junit = os.path.join(scratch, "junit.xml")
    subprocess.run(
        ["/venv/bin/python", "-m", "pytest", "-q", "-p", "no:cacheprovider", "--timeout=900",
         "--continue-on-collection-errors", "--junitxml=" + junit],
        cwd=mut, env=env, capture_output=True, text=True, timeout=3000,
    )
    base = json.load(open("/root/.vp/BASELINE.json"))
    stable = set(base["stable_pass"])
    passed = set()
    for tc in ET.parse(junit).getroot().iter("testcase"):
        if not list(tc):
            passed.add("%s::%s" % (tc.get("classname"), tc.get("name")))
    missing = sorted(stable - passed)
    meta["suite_stable_passed"] = len(stable & passed)
    meta["suite_stable_missing"] = missing[:10]
    print("suite: %d/404 stable tests pass; newly failing: %s" % (len(stable & passed), missing[:5]))
    # checks
    meta["checks"] = {}
    for cid in [prop] + extra:
        out = os.path.join(scratch, "out_" + cid)
        e2 = dict(env, VERIF_REPO=mut, VERIF_OUT=out)
        r = subprocess.run([os.path.join(VERIF, "check"), cid, "--tier", os.environ.get("VERIF_TIER", "quick")],
                           cwd=VERIF, env=e2, capture_output=True, text=True, timeout=3600)
        sigs = [l.strip()[len("signature: "):] for l in r.stdout.splitlines() if l.strip().startswith("signature:")]
        meta["checks"][cid] = {"exit": r.returncode, "signatures": sigs[:8]}
        print("check %s: exit=%d %s" % (cid, r.returncode, sigs[:4]))
        if r.returncode == 2:
            print(r.stderr[-800:])
    ok = rc_clean.returncode == 0 and rc_mut.returncode != 0 and not missing
    meta["valid_mutant"] = ok
    meta["detected_by"] = sorted(c for c, v in meta["checks"].items() if v["exit"] == 1)
    dest = os.path.join(VERIF, "seeded", name)
    if ok:
        os.makedirs(dest, exist_ok=True)
        shutil.copy(diff, os.path.join(dest, "patch.diff"))
        shutil.copy(demo, os.path.join(dest, "demo.py"))
        if os.path.exists(notes):
            shutil.copy(notes, os.path.join(dest, "notes.md"))
            meta["needs"] = open(notes).read()[:1500]
        meta["ran"] = [
            "demo.py on a clean and on a mutated scratch copy of /repo (cwd = copy)",
            "baseline pytest command on the mutated copy, junit compared with BASELINE.json stable_pass",
            "./check <id> --tier quick with VERIF_REPO=<mutated copy>",
        ]
        json.dump(meta, open(os.path.join(dest, "meta.json"), "w"), indent=1)
        print("filed under", dest, "detected_by", meta["detected_by"])
    else:
        print("NOT a valid mutant (demo or suite condition failed); not filed")
finally:
    shutil.rmtree(scratch, ignore_errors=True)
