#!/venv/bin/python
"""tools/seed_recheck.py [name ...]: re-run the checks named in seeded/<name>/meta.json (property +
any already listed) against a scratch copy of /repo with seeded/<name>/patch.diff applied and update
meta.json (checks, detected_by).  With no names: all seeded mutants.  VERIF_TIER selects the tier."""
import os, sys, json, glob, shutil, subprocess, tempfile
VERIF = os.path.dirname(os.path.dirname(os.path.abspath(__file__)))
names = sys.argv[1:] or sorted(os.path.basename(d) for d in glob.glob(os.path.join(VERIF, "seeded", "*")) if os.path.isdir(d))
for name in names:
    d = os.path.join(VERIF, "seeded", name)
    meta = json.load(open(os.path.join(d, "meta.json")))
    scratch = tempfile.mkdtemp(prefix="vseed.", dir="/var/tmp")
    try:
        subprocess.check_call("git -C /repo archive HEAD | tar -x -C %s" % scratch, shell=True)
        r = subprocess.run(["git", "apply", "--whitespace=nowarn", os.path.join(d, "patch.diff")], cwd=scratch)
        if r.returncode:
            subprocess.check_call("patch -p1 -s < %s" % os.path.join(d, "patch.diff"), cwd=scratch, shell=True)
        ids = [meta["property"]] + [c for c in meta.get("checks", {}) if c != meta["property"]] + meta.get("also_check", [])
        fast = os.environ.get("SEED_FAST") == "1"
        for cid in dict.fromkeys(ids):
            if fast and cid != meta["property"] and any(v.get("exit") == 1 and v.get("rerun") for v in meta.get("checks", {}).values()):
                # fast mode: another check already detected it in this run; keep the older record of this one
                continue
            env = dict(os.environ, VERIF_REPO=scratch, VERIF_OUT=os.path.join(scratch, "out_" + cid), PYTHONHASHSEED="0")
            r = subprocess.run([os.path.join(VERIF, "check"), cid, "--tier", os.environ.get("VERIF_TIER", "quick")], cwd=VERIF, env=env, capture_output=True, text=True, timeout=7200)
            sigs = [l.strip()[len("signature: "):] for l in r.stdout.splitlines() if l.strip().startswith("signature:")]
            meta.setdefault("checks", {})[cid] = {"exit": r.returncode, "signatures": sigs[:8], "tier": os.environ.get("VERIF_TIER", "quick"), "rerun": True}
        for v in meta["checks"].values():
            v.pop("rerun", None)
        meta["detected_by"] = sorted(c for c, v in meta["checks"].items() if v.get("exit") == 1)
        json.dump(meta, open(os.path.join(d, "meta.json"), "w"), indent=1)
        print(name, "detected_by", meta["detected_by"], {c: v["signatures"][:2] for c, v in meta["checks"].items()})
    finally:
        shutil.rmtree(scratch, ignore_errors=True)
