#!/venv/bin/python
"""Self-test of the exploration engines on toy programs with known answers (not a registered check).
  * THR: an unlocked read-modify-write counter loses an update with exactly 1 preemption and never
    with 0; the locked version never does; a lock-order inversion deadlocks.
  * AIO: two tasks with two awaits each have 4!/(2!2!) = 6 interleavings.
  * FLT: k raises among n calls -> sum_{j<=k} C(n, j) answer sequences.
Exit 0 if every engine gives the known answer."""
import os, sys, math
sys.path.insert(0, os.path.dirname(os.path.dirname(os.path.abspath(__file__))))
from vkit import thr, aio, flt

ok = True
def expect(name, got, want):
    global ok
    print("%-55s got %-12r want %r %s" % (name, got, want, "" if got == want else "  <-- MISMATCH"))
    ok = ok and got == want

HERE = os.path.abspath(__file__)

def racy_setup(locked):
    def setup(s):
        box = {"n": 0}
        lock = thr.CoopLock()
        def body():
            if locked:
                lock.acquire()
            v = box["n"]        # line: read
            v = v + 1           # line: modify
            box["n"] = v        # line: write
            if locked:
                lock.release()
        return [("A", body), ("B", body)], lambda s: box["n"]
    return setup

for bound, want_bad in ((0, False), (1, True), (2, True)):
    outs = set(x.obs for x in thr.explore(racy_setup(False), bound, trace_files=[HERE], trace_funcs={"body"}))
    expect("THR unlocked counter, bound %d: lost update found" % bound, 1 in outs, want_bad)
outs = set(x.obs for x in thr.explore(racy_setup(True), 2, trace_files=[HERE], trace_funcs={"body"}))
expect("THR locked counter, bound 2: outcomes", sorted(outs), [2])

def deadlock_setup(s):
    a, b = thr.CoopLock(), thr.CoopLock()
    def t1():
        a.acquire(); b.acquire(); b.release(); a.release()
    def t2():
        b.acquire(); a.acquire(); a.release(); b.release()
    return [("T1", t1), ("T2", t2)], lambda s: bool(s.deadlock)
dl = [x.obs for x in thr.explore(deadlock_setup, 1)]
expect("THR lock-order inversion, bound 1: deadlock found", any(dl), True)
expect("THR lock-order inversion, bound 0: deadlock found", any(x.obs for x in thr.explore(deadlock_setup, 0)), False)

async def amain(run):
    import asyncio
    order = []
    async def w(name):
        await run.pause(name); order.append(name + "1")
        await run.pause(name); order.append(name + "2")
    await asyncio.gather(asyncio.create_task(w("a")), asyncio.create_task(w("b")))
    return tuple(order)
orders = set(res for r, res in aio.explore(amain))
expect("AIO 2 tasks x 2 awaits: distinct interleavings", len(orders), 6)

def run(devs):
    return 5, tuple(sorted(devs))
n = sum(1 for _ in flt.explore(run, 2, 1))
expect("FLT 5 calls, <= 2 raises: answer sequences", n, 1 + 5 + math.comb(5, 2))
sys.exit(0 if ok else 1)
