#!/bin/bash
# validate all evidence files against the schema
python3-vt - <<'PY'
import json,glob,jsonschema
sch=json.load(open('/root/.vp/EVIDENCE.schema.json'))
for p in sorted(glob.glob('/verif/evidence/*.json')):
    try:
        jsonschema.validate(json.load(open(p)),sch); print('ok',p)
    except Exception as e:
        print('INVALID',p,str(e)[:300])
PY
