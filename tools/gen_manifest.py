#!/venv/bin/python
"""Regenerate /verif/MANIFEST.json from the table below; validates against the
schema with python3-vt's jsonschema if available.  A property is claimed only
if its check module exists under props/."""

import os
import sys
import glob
import json
import subprocess

HERE = os.path.dirname(os.path.dirname(os.path.abspath(__file__)))

T = {
    "C01": (
        "exploration",
        "SEQ",
        "bounded-exhaustive enumeration of logging programs (all forests <= N nodes x <= k attribute deviations) run on the real API and JSON file path, compared with a reference forest",
        "Every program in the stated small scope round-trips through to_file -> json -> Parser to exactly the executed tree. Exhaustive small scope is the right level: each mechanism (position counter, context reset, serializer attachment, parser insertion) relates a handful of objects.",
        "Field values from 6 JSON-native sets; programs above the node bound and values outside the pool are not covered; deterministic clock/uuid seams.",
        "3.C01",
    ),
    "C02": (
        "model_checking",
        "SEQ+FLT,THR,AIO",
        "stateless exploration of the real write path under a fault injector that owns every destination answer (<= k raises + always-raise strategies), plus all thread/task interleavings of small concurrent programs; structural invariant on the healthy destination's stream",
        "No execution within the bound produces a duplicate (uuid, level), a gap, a misplaced start/end or an emission order that disagrees with level order inside an action.",
        "Bounded programs, bounded raises; threads switch at logging-call boundaries, tasks at await points.",
        "3.C02",
    ),
    "C03": (
        "exploration",
        "SEQ",
        "exhaustive product of body exits x exception classes x extractor registrations along the MRO x repeated finishes x nesting, against a reference outcome record and exception identity",
        "Exactly one start and one truthful end for every enumerated combination, including BaseException subclasses and raising extractors.",
        "Exception classes and extractor registrations from a fixed alphabet; nesting <= 3.",
        "3.C03",
    ),
    "C04": (
        "model_checking",
        "SEQ(scope trees)",
        "explicit enumeration of all scope trees (with / context() / run() / re-entry / start_task / generator close x exit kinds) up to N nodes on the real API, reference context stack probed after every entry and exit",
        "current_action() is restored exactly after every scope exit for every nesting in the bound.",
        "Scope trees up to the node bound; `with` re-entry of an already-entered action excluded (single-use token by design).",
        "3.C04",
    ),
    "C05": (
        "model_checking",
        "THR(call-boundary),AIO",
        "stateless exhaustive exploration of all interleavings of 2-3 real threads (baton scheduler, switch at logging-call boundaries) and 2-3 asyncio tasks (hand-driven stock event loop, switch at await points)",
        "No schedule of the enumerated structured programs leaks context: per-step current_action() identity and one canonical parsed forest for all schedules.",
        "Call-boundary granularity for threads as the property states; stock asyncio loop driven by hand; trio absent.",
        "3.C05",
    ),
    "C06": (
        "model_checking",
        "SEQ,THR(line)",
        "exhaustive hand-off programs (multi-hop, several ids, both id encodings) x all order-preserving merges and rotations of the separate logs, plus preemption-bounded line-granularity exploration of concurrent calls of one preserve_context callable with a scheduler-aware lock",
        "Every explored hand-off parses as a child at exactly the reserved position; no schedule within the preemption bound runs the preserved function twice.",
        "threading.Lock in eliot._action replaced by a cooperative lock with identical non-blocking semantics; line granularity.",
        "3.C06",
    ),
    "C07": (
        "fault_enumeration",
        "SEQ+FLT",
        "hostile value at every field position x all fault patterns (<= k raises among destination/serializer/extractor calls, always-raise strategies) on programs <= 3 nodes",
        "No enumerated combination makes a public logging call raise or changes an application exception / return value.",
        "Exception subclasses of Exception only (as stated); value alphabet of 14 hostile kinds.",
        "3.C07",
    ),
    "C08": (
        "model_checking",
        "FLT",
        "stateless exploration of the real Destinations.send under a fault injector owning every destination answer: all answer sequences with <= k raises over the adaptive call sequence plus always-raise strategies, against a 20-line reference fan-out model",
        "Per-destination received sequences equal the model for every failure mask in the bound; always-raise terminates.",
        "1-3 destinations, <= 4 primary messages, <= k raises.",
        "3.C08",
    ),
    "C09": (
        "model_checking",
        "LAT",
        "explicit-state search of the subset lattice of real message sets: every subset is a state (the real Parser value + yielded tasks), every single-message arrival a transition calling the real Parser.add; confluence + exact completion oracle",
        "For every message set in the bound every permutation is a path and every subset a state, so order independence and exact completeness detection hold for all of them.",
        "Message sets up to the size bound produced by real programs incl. remote sub-tasks; duplicates/malformed levels outside 'well-formed'.",
        "3.C09",
    ),
    "C10": (
        "exploration",
        "SEQ(inputs)",
        "exhaustive JSON-native value grammar to depth 2 over a boundary-atom pool + rich types x {binary,text} x {default, custom json_default}, recorded write/flush calls and stdlib json.loads of the line",
        "Every value in the enumerated grammar yields exactly one write+flush of one valid, faithful line in both modes.",
        "Unicode and numbers by boundary representatives; signed 64-bit reading.",
        "3.C10",
    ),
    "C11": (
        "fault_enumeration",
        "CRASH",
        "every crash point (before write / every torn prefix of unflushed bytes / after flush / after ack) of every enumerated program over a logging in-memory device, and the same point kinds by real self-SIGKILL in forked children writing a real buffered file",
        "No crash point in the bound loses an acknowledged message, yields an unparseable complete line or an over-reported completeness.",
        "Kill at any instant is equivalent to one of the enumerated I/O-boundary points; fsync/power loss not claimed.",
        "3.C11",
    ),
    "C12": (
        "model_checking",
        "LAT,THR(line)",
        "explicit-state BFS over all log/add/remove/global-field op sequences to depth d (incl. >1000 bursts) on the real Destinations object vs a list model, plus preemption-bounded line-granularity exploration of a logging thread against the first add_destinations",
        "All op sequences to the depth bound match the model; all schedules to the preemption bound lose/duplicate/reorder nothing (modulo listed known findings).",
        "Line granularity in eliot/_output.py; list.append/extend atomic.",
        "3.C12",
    ),
    "C13": (
        "exploration",
        "SEQ+FLT",
        "exhaustive type definitions (1-3 fields x serializer alphabet) x failing subsets x missing field x message kind, delivered dict vs model, call counters, deep snapshot of caller data",
        "Each declared field serialized exactly once, caller data untouched, failures contained and reported exactly, for every enumerated definition.",
        "Serializer alphabet of 5; Logger (not MemoryLogger).",
        "3.C13",
    ),
    "C14": (
        "exploration",
        "SEQ(inputs)",
        "exhaustive type definitions x conforming messages x every single-point deviation; capture_logging under a real unittest runner for every outcome x nesting",
        "accepted <=> no deviation for all enumerated messages; default logger restored after every test outcome.",
        "Field kinds/deviation kinds from a fixed alphabet.",
        "3.C14",
    ),
    "C15": (
        "model_checking",
        "SEQ(driver schedules)",
        "exhaustive driver schedules over 1-3 decorated generators: every op sequence (next/send/throw/close) x driver context per step up to a depth/deviation bound on the real decorator, own-context reference stack + differential vs the undecorated generator",
        "No driver schedule in the bound runs generator code in a foreign context, changes the driver's context, or alters values crossing the wrapper.",
        "Generator bodies from a fixed alphabet; twisted inline_callbacks not installed (two-line composition over the checked decorator).",
        "3.C15",
    ),
    "C16": (
        "model_checking",
        "THR(line)",
        "preemption-bounded exhaustive exploration at source-line granularity of 2-3 real threads calling MemoryLogger write/validate/serialize/flush/reset and FileDestination writes, with a scheduler-aware lock; linearizability against the same ops run sequentially",
        "No schedule within the preemption bound mis-pairs, loses or tears a message; no deadlock.",
        "Line granularity; eliot._output.Lock replaced by a cooperative lock of identical semantics.",
        "3.C16",
    ),
    "C17": (
        "exploration",
        "SEQ",
        "bounded-exhaustive captured programs (equal types at several depths, remote, failed, several tasks) comparing LoggedAction trees with Parser trees and the interpreter reference",
        "Test helpers agree with the parser on every enumerated program.",
        "All actions finished (documented contract).",
        "3.C17",
    ),
    "C18": (
        "exploration",
        "SEQ(inputs)",
        "exhaustive generated signatures (5 parameter kinds x defaults x name pool) x argument lists x decorator options, differential against the undecorated function and inspect.signature.bind",
        "Decorated and undecorated functions agree on every enumerated call.",
        "Parameter names from a pool including eliot keyword names; <= 3 parameters.",
        "3.C18",
    ),
    "C19": (
        "model_checking",
        "THR(line)",
        "preemption-bounded exhaustive exploration at line granularity of producers x reader thread x stop on the real ThreadedWriter against stand-in twisted modules, cooperative FIFO queue and join; fault injector for the wrapped destination",
        "No schedule within the bound loses, duplicates or reorders a message offered before stop; stop completes only after the drain; no deadlock.",
        "Twisted absent: Service/deferToThreadPool stand-ins; SimpleQueue FIFO atomicity trusted.",
        "3.C19",
    ),
    "C20": (
        "exploration",
        "SEQ(inputs)",
        "exhaustive message pool x input-line alphabet sequences <= 3 x both formatters x filter expressions; rendered text re-parsed independently",
        "Every enumerated message renders completely; every enumerated stream is processed line by line without aborting.",
        "Value alphabet by representatives; pretty layout lossy for backslashes (not demanded).",
        "3.C20",
    ),
}

NOT_YET = "check not built yet in this session (see DESIGN.md section 3 for the planned exhaustive exploration)"


def main():
    checks = []
    na = []
    for pid in sorted(T):
        cat, engine, technique, text, note, ref = T[pid]
        if glob.glob(os.path.join(HERE, "props", pid.lower() + "_*.py")):
            checks.append(
                {
                    "property_id": pid,
                    "quick_cmd": "./check %s --tier quick" % pid,
                    "thorough_cmd": "./check %s --tier thorough" % pid,
                    "evidence_file": "/verif/evidence/%s.json" % pid,
                    "replay_cmd_template": "./check %s --replay {path}" % pid,
                    "engine": engine,
                    "level_claimed": {"category": cat, "text": text, "design_ref": ref},
                    "level_note": note,
                    "technique": technique,
                }
            )
        else:
            na.append({"property_id": pid, "reason": NOT_YET})
    m = {
        "version": 1,
        "setup_cmd": "true",
        "hooks": {
            "guard": "ELIOT_VERIF",
            "enable": "no source hooks: every seam is a module-level name substituted by the harness at import time (vkit/world.py); checks import eliot from /repo's working tree directly",
            "baseline_off_cmd": "cd /repo && /venv/bin/python -m pytest -ra -q -p no:cacheprovider --timeout=900 --continue-on-collection-errors",
            "source_commits": [],
            "add_only": True,
        },
        "engines": [
            {"name": "SEQ", "path": "vkit/progs.py", "kind_free_text": "bounded-exhaustive program/input enumerator + reference interpreter", "serves_properties": ["C01", "C02", "C03", "C04", "C07", "C10", "C13", "C14", "C15", "C17", "C18", "C20"]},
            {"name": "FLT", "path": "vkit/flt.py", "kind_free_text": "deviation-bounded environment-answer (fault) explorer", "serves_properties": ["C02", "C07", "C08", "C13", "C19"]},
            {"name": "LAT", "path": "vkit/lat.py", "kind_free_text": "explicit-state BFS over real objects", "serves_properties": ["C09", "C12"]},
            {"name": "THR", "path": "vkit/thr.py", "kind_free_text": "stateless preemption-bounded thread-schedule explorer (baton + settrace)", "serves_properties": ["C02", "C03", "C05", "C06", "C07", "C08", "C12", "C13", "C16", "C19"]},
            {"name": "PROJ", "path": "vkit/proj.py", "kind_free_text": "on top of THR: all schedules of 2-3 threads with scheduling points inside the logging calls; every thread's own log must equal the sequential schedule's", "serves_properties": ["C03", "C05", "C07"]},
            {"name": "AIO", "path": "vkit/aio.py", "kind_free_text": "asyncio interleaving explorer (hand-driven loop)", "serves_properties": ["C02", "C05"]},
            {"name": "CRASH", "path": "props/c11_crash.py", "kind_free_text": "crash-point / torn-write enumerator", "serves_properties": ["C11"]},
        ],
        "checks": checks,
        "not_applicable": na,
        "notes": "All checks explore the real Python implementation exhaustively within stated bounds; see DESIGN.md. Known findings: known_findings.json.",
    }
    path = os.path.join(HERE, "MANIFEST.json")
    with open(path, "w") as f:
        json.dump(m, f, indent=1)
    code = (
        "import json,jsonschema,sys;"
        "jsonschema.validate(json.load(open(%r)),json.load(open('/root/.vp/MANIFEST.schema.json')));"
        "print('MANIFEST valid: %d checks, %d not_applicable')" % (path, len(checks), len(na))
    )
    subprocess.call(["python3-vt", "-c", code])


if __name__ == "__main__":
    main()
