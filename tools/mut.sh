#!/bin/bash
# Usage: tools/mut.sh <patch.diff> <check-id>... [-- extra check args]
# Copies /repo/eliot to a scratch dir under /var/tmp, applies the patch there,
# runs the given checks against it through VERIF_REPO, removes the copy.
# Never touches /repo.  Prints one line per check: <patch> <id> exit=<code>.
set -u
patch="$(readlink -f "$1")"; shift
tier="${VERIF_TIER:-quick}"
scratch="$(mktemp -d /var/tmp/vmut.XXXXXX)"
trap 'rm -rf "$scratch"' EXIT
mkdir -p "$scratch/repo"
cp -r /repo/eliot /repo/setup.py /repo/setup.cfg /repo/versioneer.py "$scratch/repo/" 2>/dev/null
rm -rf "$scratch/repo/eliot/__pycache__" "$scratch/repo/eliot/tests/__pycache__"
if ! (cd "$scratch/repo" && patch -p1 -s --no-backup-if-mismatch < "$patch"); then
  echo "PATCH FAILED: $patch"; exit 3
fi
cd "$(dirname "$(readlink -f "$0")")/.."
for id in "$@"; do
  out="$scratch/out.$id"
  VERIF_REPO="$scratch/repo" VERIF_OUT="$scratch/out" ./check "$id" --tier "$tier" > "$out" 2>&1
  code=$?
  echo "$(basename "$patch") $id exit=$code $(grep -c '^VIOLATION' "$out") violation lines; $(grep -m1 'signature' "$out")"
  if [ "${VERBOSE:-0}" = 1 ]; then cat "$out"; fi
done
