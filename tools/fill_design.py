#!/venv/bin/python
"""Fill the generated tables of DESIGN.md (between <!-- NAME --> markers):
QUICK_TABLE from evidence/*.json (quick runs only), THOROUGH_TABLE from a run_all thorough log
(argument 1, optional), SELFTEST_TABLE from /var/tmp/selftest_all.log (argument 2, optional),
SEEDED_TABLE from seeded/*/meta.json."""
import os, re, sys, json, glob
V = os.path.dirname(os.path.dirname(os.path.abspath(__file__)))
doc = open(os.path.join(V, "DESIGN.md")).read()

def put(name, text):
    global doc
    a, b = "<!-- %s -->" % name, "<!-- /%s -->" % name
    i, j = doc.index(a) + len(a), doc.index(b)
    doc = doc[:i] + "\n" + text.rstrip() + "\n" + doc[j:]

# quick table
rows = ["| id | level | cases | executions of real code | states | transitions | distinct outcomes | wall | other counters |", "|---|---|---|---|---|---|---|---|---|"]
for p in sorted(glob.glob(os.path.join(V, "evidence", "C*.json"))):
    e = json.load(open(p)); c = e["coverage"]
    if e["tier"] != "quick":
        continue
    skip = ('samples','rule','explanation','bounds','evaluations','distinct_nontrivial','exhaustive','executions','distinct_observed_outcomes','units','determinism_replays','states','transitions','traces_validated_against_impl')
    extra = "; ".join("%s=%s" % kv for kv in sorted(c.items()) if kv[0] not in skip)
    rows.append("| %s | %s | %d | %d | %s | %s | %d | %.0f s | %s |" % (e["property_id"], e["level"], c["evaluations"], c.get("executions", 0), c.get("states", "-"), c.get("transitions", "-"), c["distinct_observed_outcomes"], e["wall_s"], extra[:220]))
put("QUICK_TABLE", "\n".join(rows))

if len(sys.argv) > 1 and os.path.exists(sys.argv[1]):
    rows = ["| id | exit | wall | summary line |", "|---|---|---|---|"]
    for l in open(sys.argv[1]):
        m = re.match(r"(C\d+) exit=(\d+)\s+([\d.]+)s (.*)", l)
        if m:
            rows.append("| %s | %s | %s s | `%s` |" % (m.group(1), m.group(2), m.group(3), m.group(4).strip()[:170]))
    put("THOROUGH_TABLE", "\n".join(rows))

if len(sys.argv) > 2 and os.path.exists(sys.argv[2]):
    rows = ["| property | patch | check | result | first signature |", "|---|---|---|---|---|"]
    for l in open(sys.argv[2]):
        m = re.match(r"(C\d+) (\S+\.diff) (C\d+) exit=(\d+) (\d+) violation lines;\s*(?:signature: (\S+))?", l)
        if m:
            rows.append("| %s | `%s` | %s | exit %s | %s |" % (m.group(1), m.group(2), m.group(3), m.group(4), m.group(6) or ("(benign: expected to pass)" if m.group(2).startswith("benign") else "")))
    put("SELFTEST_TABLE", "\n".join(rows))

rows = ["| name | breaks | what it needs to manifest (from the author's notes) | detected now by | signatures |", "|---|---|---|---|---|"]
for d in sorted(glob.glob(os.path.join(V, "seeded", "*"))):
    mp = os.path.join(d, "meta.json")
    if not os.path.exists(mp):
        continue
    m = json.load(open(mp))
    needs = (m.get("summary") or m.get("needs", "")).replace("\n", " ").replace("|", "/")
    needs = re.sub(r"\s+", " ", needs)[:230]
    sigs = "; ".join("%s: %s" % (c, ", ".join(v["signatures"][:2])) for c, v in sorted(m.get("checks", {}).items()) if v["exit"] == 1)
    first = m.get("first_run")
    rows.append("| `%s` | %s | %s | %s%s | %s |" % (m["name"], m["property"], needs, ", ".join(m.get("detected_by", [])) or ("neutralised by fix %s (no longer breaks the property)" % m["neutralised_by_fix"] if m.get("neutralised_by_fix") else "**none**"), (" (first run: %s)" % first) if first else "", sigs[:200]))
put("SEEDED_TABLE", "\n".join(rows))
open(os.path.join(V, "DESIGN.md"), "w").write(doc)
print("DESIGN.md tables refreshed")
