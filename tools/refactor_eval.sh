#!/bin/bash
# tools/refactor_eval.sh [tier]: run, for every behaviour-preserving refactoring in refactors/<area><k>.diff, the
# checks whose anchors lie in the refactored files.  Every line must say exit=0: these patches do not change
# behaviour, so any VIOLATION (exit 1) would be a false alarm and any exit 2 a harness that depends on eliot's
# private structure.
cd "$(dirname "$(readlink -f "$0")")/.." || exit 2
declare -A MAP
MAP[A]="C01 C02 C03 C04 C05 C06 C15"      # _action.py: Action, context handling, start_action/log_message
MAP[B]="C06 C18 C09 C01 C17"              # _action.py: TaskLevel, task ids, preserve_context, log_call, WrittenAction
MAP[C]="C08 C12 C07 C02 C13 C16"          # _output.py: Destinations, Logger
MAP[D]="C16 C10 C11 C14 C17"              # _output.py: MemoryLogger, FileDestination; json.py
MAP[E]="C09 C01 C17 C13 C20"              # parse.py, _message.py
MAP[F]="C13 C14 C03 C07 C01"              # _validation.py, _errors.py, _traceback.py
MAP[G]="C15 C19"                          # _generators.py, logwriter.py
MAP[H]="C20 C17 C14"                      # prettyprint.py, filter.py, testing.py
export VERIF_TIER="${1:-quick}"
for f in refactors/*.diff; do
  a=$(basename "$f" | cut -c1)
  tools/mut.sh "$f" ${MAP[$a]} | cut -c1-120
done
