#!/bin/bash
# tools/run_all.sh [quick|thorough] : run every check, one summary line each
tier="${1:-quick}"
cd "$(dirname "$0")/.."
for i in 01 02 03 04 05 06 07 08 09 10 11 12 13 14 15 16 17 18 19 20; do
  s=$(date +%s.%N)
  out=$(timeout 3600 ./check C$i --tier "$tier" 2>&1); code=$?
  e=$(date +%s.%N)
  printf "C%s exit=%s %6.1fs %s\n" "$i" "$code" "$(echo "$e - $s" | bc)" "$(echo "$out" | grep -E "^C$i $tier" | cut -c1-160)"
  echo "$out" | grep -E "^VIOLATION|HARNESS" | head -3
done
