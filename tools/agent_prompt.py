#!/venv/bin/python
"""Print the sub-agent prompt for one property (only the property text + worktree path)."""
import sys, json
pid, wt = sys.argv[1], sys.argv[2]
for l in open('/verif/properties.jsonl'):
    p = json.loads(l)
    if p['id'] == pid:
        break
print(f"""You are working in a scratch git worktree of the Python library `eliot` (structured logging: causal trees of actions and messages, plus a parser that rebuilds the trees) at {wt}. Work ONLY inside {wt} (never touch /repo or /verif, do not read /verif). Python is /venv/bin/python; run it with the worktree as current directory so that `import eliot` picks up the worktree's copy (check with: cd {wt} && /venv/bin/python -c "import eliot; print(eliot.__file__)").

Here is a semantic property of eliot that currently holds:

  Title: {p['title']}
  Statement: {p['statement']}
  Quantified over: {p['quantifier']['text']}

Your task: produce up to TWO different, realistic, *subtle* changes to eliot's source (under {wt}/eliot, not the tests) that each BREAK this property while the code still imports and the existing test suite still passes. Think of the kind of regression a plausible refactoring, optimisation or "simplification" by a maintainer could introduce. Prefer changes that need something specific to manifest - a particular interleaving of threads/tasks, a crash or fault at a particular point, a multi-step sequence of operations, an unusual-but-legal input, a particular nesting depth, or two cooperating sites that each look fine alone - NOT changes that ordinary use would expose at once, and not changes that merely delete a feature.

For each change k in {{1, 2}}:
  1. Start from a clean tree (git -C {wt} checkout -- . ), make the edit.
  2. Run the existing tests and make sure the same tests pass as before your change: cd {wt} && /venv/bin/python -m pytest -q -p no:cacheprovider --timeout=900 eliot 2>&1 | tail -5   (about 3 minutes; on the unchanged tree 404 pass and 19 fail - the 19 failures are in test_journald.py and test_prettyprint.py::CommandLineTests and are expected in this sandbox; your change must not add failures).
  3. Write {wt}/demo{{k}}.py: a small stand-alone program (it may use threads, asyncio, os.fork etc., but must be deterministic) that exits with status 0 on the unchanged tree and with non-zero status (printing what went wrong) when your change is applied. Run it both ways (cd {wt} && /venv/bin/python demo{{k}}.py; echo $?).
  4. Save the change as a patch: git -C {wt} diff -- eliot > {wt}/mutant{{k}}.diff
  5. Write a few lines to {wt}/notes{{k}}.md: what the change is, why the tests do not notice, and exactly what is needed for the violation to manifest.
Then restore the clean tree (git -C {wt} checkout -- .) leaving only the untracked files mutant1.diff, demo1.py, notes1.md (and the *2* files if you found a second one).

Do not commit anything. In your final answer list the files you produced and summarise each change in two sentences.""")
